"""Per-property job tables for bin/check.  A job = one harness process (harness source, library variant, back-end,
shard i/n, extra args/env).  Everything here is data; the deciding enumeration is in harness/*.cpp."""

BE = ['spqlios-fma', 'spqlios-avx', 'nayuki-portable', 'nayuki-avx', 'fftw']


def shards(n, **kw):
    return [dict(kw, shard=i, nshards=n) for i in range(n)]


def J(harness, variant='optim', backend='spqlios-fma', n=1, **kw):
    return shards(n, harness=harness, variant=variant, backend=backend, **kw)


PROPS = {}

# ------------------------------------------------------------------------------------------------ C13
PROPS['C13'] = dict(
    technique='exhaustive sweep of all 2^32 phases per message-space size, every M in [2,2^15] on the boundary alphabet, all mu, all 2^32 values for the conversion identity; 128-bit integer rounding oracle',
    level='exploration',
    rule='cases = (M, 2^24-phase chunk) for the full sweeps, (M) for boundary/round-trip sweeps, (2^24 chunk) for the '
         'double<->torus identity; evaluations = phases evaluated; non-trivial = phase within 2 units of a rounding boundary '
         '(k+1/2)/M, boundary-alphabet phases, mu not in {0,1}, x != 0',
    bounds={'quick': 'all 2^32 phases for M in {2048,8,3,1000}; every M in [2,2^15] and 2^16..2^22 on the boundary alphabet; every mu of every M in [2,2^15] and 2^16..2^30; a quarter (residue VERIF_SEED mod 4 of the chunk index) of the 2^32 conversion identity; the boundary alphabet of M in [2,2048] + powers of two under the three non-default floating-point rounding modes; dtot32(t32tod(x) +- {1,3}*2^e) for e in 0..50 against the mantissa-exact value',
            'thorough': 'all 2^32 phases for 13 M incl. 2^30; boundary alphabet for every M in [2,2^15] and all powers of two to 2^30; all mu; all 2^32 torus values for the conversion identity'},
    assumptions=['the functions are pure (no state): debug/optim and the five back-ends share one translation unit, checked on optim and debug of spqlios-fma',
                 'Msize is an int32_t: 2^31 is not a value of the parameter type (interval width 0 -> division by zero), largest power of two is 2^30'],
    jobs=lambda tier, seed: J('c13.cpp', 'optim', n=16) + (J('c13.cpp', 'debug', n=16) if tier == 'thorough' else J('c13.cpp', 'debug', n=8, args=['ms=2048,3', 'light=1'])),
)

# ------------------------------------------------------------------------------------------------ C12
PROPS['C12'] = dict(
    technique='exhaustive sweep of all 2^32 torus values per decomposition layout; digit-relation oracle; vector-vs-scalar build digests compared',
    level='exploration',
    rule='cases = (layout, 2^24-value chunk): every one of the 2^32 torus values decomposed (1024 consecutive values per polynomial) '
         'and checked against the digit relation; (layout) position sweep: 2^16 values at all positions; (layout,k) TLWE wrapper. '
         'Every value is a distinct non-trivial case (each has its own digit vector); optim (AVX2 asm) and debug (scalar C) digests of all digits per chunk must be equal',
    bounds={'quick': 'all 2^32 values x layouts (3,7),(2,10),(4,8),(1,1) on optim; (3,7),(2,10) on debug with per-chunk digest equality; positions; TLWE wrapper k=1,2; ring degrees 8..8192 x 4 layouts x 7 contents (zero, constant, unit, seeded)',
            'thorough': 'all 2^32 values x 13 layouts (incl. l*Bgbit=32: (4,8),(32,1),(2,16),(16,2); Bgbit=2; (1,30)) on optim and debug, digest equality on every chunk'},
    assumptions=['N=1024 (the only ring size the FFT back-ends accept); the decomposition code is shared by the five back-ends (one core object), so it is run on one',
                 'Bgbit<=30 so that Bg fits its int32_t field'],
    jobs=lambda tier, seed: J('c12.cpp', 'optim', n=16) + (J('c12.cpp', 'debug', n=16) if tier == 'thorough' else J('c12.cpp', 'debug', n=12, args=['layouts=default'])),
)

# ------------------------------------------------------------------------------------------------ C11
def _c11(tier, seed):
    jobs = J('c11.cpp', 'optim', n=14, extra_src=['guardalloc.cpp'], env={'VF_GUARD': 'after'}, crash_is_violation=True)
    jobs += J('c11.cpp', 'debug', n=6 if tier == 'quick' else 16, extra_src=['guardalloc.cpp'], env={'VF_GUARD': 'before'}, crash_is_violation=True,
              args=(['nbasis=32'] if tier == 'quick' else ['nbasis=256']))
    # the products must also be exact when two threads multiply unrelated polynomials at the same time: all schedules with <= 2 preemptions
    jobs += J('c06.cpp', 'optim', n=1, args=['part=sched', 'scenario=K-', 'threads=' + ('2' if tier == 'quick' else '3')], ldflags='-ldl')
    return jobs
PROPS['C11'] = dict(
    technique='all exponents a in [0,2N) for every N, all basis pairs (bilinear completeness), extreme vectors, guard pages; all 2-thread schedules with <= 2 preemptions for concurrent Karatsuba products',
    level='exploration',
    rule='cases = (N, a) for the three monomial routines on 7 contents; (N) group law X^a X^b; (N, i) basis rows: all pairs (X^i, c X^j) '
         'through Naive/Karatsuba/AddMulR/SubMulR; (N, content_a, content_b) full vectors; (N, c1, c2) coefficient-wise ops x 9 scalars. '
         'Non-trivial = every case (all operands non-zero); oracle = explicit-index / wrapping 64-bit exact product',
    bounds={'quick': 'N in {1..2048}: every a in [0,2N); all basis pairs for N<=128 (optim) / N<=32 (debug), wrap-boundary j set above; 36 full-vector pairs; aliased calls (AddMulZ/SubMulZ r=p1, r=p2, all equal; AddTo(r,r); AddMulZTo(r,p,r); Karatsuba family with result = torus operand) x 6 contents x 9 scalars; operands write-protected during every product; N=4096, 8192 for the four product routines; guard pages after (optim) / before (debug)',
            'thorough': 'all basis pairs for N<=512 (optim) / N<=256 (debug); the rest as quick'},
    assumptions=['the routines are bilinear over Z/2^32 (ring operations only, no data-dependent control flow): agreement on all basis pairs is agreement on all inputs; extreme and seeded full vectors are added to notice a change that breaks that premise',
                 'polynomial code is shared by the five back-ends; run on one'],
    jobs=_c11,
)

# ------------------------------------------------------------------------------------------------ C14
def _c14(tier, seed):
    g = dict(extra_src=['guardalloc.cpp'])
    jobs = J('c14.cpp', 'optim', n=8, env={'VF_GUARD': 'after'}, **g)
    jobs += J('c14.cpp', 'optim', n=4, env={'VF_GUARD': 'before'}, **g)
    jobs += J('c14.cpp', 'debug', n=4, env={'VF_GUARD': 'after'}, **g)
    jobs += J('c14.cpp', 'asan', n=6)
    if tier == 'thorough':
        jobs += J('c14.cpp', 'asan-debug', n=6)
        jobs += J('c14.cpp', 'optim', backend='fftw', n=4, env={'VF_GUARD': 'after'}, **g)
    return jobs
PROPS['C14'] = dict(
    technique='exhaustive enumeration of dimension x operation x scalar x aliasing x content with exact wrapping-arithmetic oracle under guard pages (after/before) and ASan; every extraction index',
    level='exploration',
    rule='cases = (n, op, p, aliasing, content1, content2) for 8 LWE ops, n in 1..40 + {500,630,1023,1024,1025,2048}; (N,k,op,variant,content) for 10 TLWE ops, '
         'N in 2..1024, k in 1..3 (all a in [0,2N) for N<=64); (N,k,content,j) extraction for every j. Non-trivial = n not a multiple of 8, or n<8, or p not in {0,1}; all TLWE/extraction cases. '
         'Oracle: coefficient arrays and phases (3 keys) equal exact wrapping arithmetic; variance annotation; guard pages after/before every heap block (sees the inline-asm accesses ASan cannot)',
    bounds={'quick': 'full case product on optim (guard after, guard before), debug (guard after), asan; ring degrees that are not powers of two (3..1023); library phase / decryption read before and after every in-place operation; four keys incl. arbitrary integer coefficients', 'thorough': '+ asan-debug, + fftw back-end'},
    assumptions=['LWE/TLWE linear code is in the core objects shared by all back-ends', 'variance annotation checked for |p| < 2^15 as the property states'],
    jobs=_c14,
)

NOT_YET = {}

# ------------------------------------------------------------------------------------------------ C08
def _c08(tier, seed):
    g = dict(extra_src=['guardalloc.cpp'])
    jobs = J('c08.cpp', 'optim', n=14, args=['part=sweeps'])
    jobs += J('c08.cpp', 'optim', n=4, args=['part=dims'], env={'VF_GUARD': 'after'}, **g)
    jobs += J('c08.cpp', 'debug', n=3, args=['part=dims'], env={'VF_GUARD': 'before'}, **g)
    jobs += J('c08.cpp', 'asan', n=3, args=['part=dims'])
    if tier == 'thorough':
        jobs = J('c08.cpp', 'optim', n=16, args=['part=sweeps']) + jobs[14:]
    return jobs
PROPS['C08'] = dict(
    technique='exhaustive sweep over all 2^32 values of a mask coefficient per digit layout with an exact-equality oracle (row errors known from the secret keys); dimension pairs under guard pages',
    level='exploration',
    rule='cases = (layout, n_out, key kind, key bit, 2^24 chunk of the mask coefficient a) with n_in=1: every a of the chunk (or of a residue class) '
         'through lweKeySwitch; boundary alphabet (+-64 around every digit-carry boundary, 0, 2^31, 2^32-1) for 10 layouts x {noiseless, noisy key}; '
         '(n_in, n_out, layout, key kind, content) dimension pairs. Oracle: exact equality phase_out-phase_in = s(a-round_t(a)) - sum of the errors of the rows used '
         '(errors known from the secret keys; either neighbour accepted on an exact rounding tie). every case non-trivial (key bit 1 or noisy rows)',
    bounds={'quick': 'default layout (8,2), n_out=8: residue class a = VERIF_SEED (mod 64) of all 2^32 values for noiseless and noisy keys; boundary alphabet for 10 layouts; 36 dimension pairs x 12 contents under guard pages / ASan; key-switching keys embedded in bootstrapping keys (k in 1..3, 7 cells): bk->ks and the copy in the FFT key exact and bit-identical, unchanged after bk is re-keyed / deleted; every library-generated row within 10 sigma; keys generated by the library with noise 0 exact for 15 layouts up to t*basebit=31, first and second generation, and by the legacy generator lweCreateKeySwitchKey_old (noisy and noiseless)',
            'thorough': 'all 2^32 values of a for (8,2) noiseless+noisy and (31,1),(15,2),(16,1),(3,10),(1,1) noiseless, residue class mod 16 for the others; 49 dimension pairs'},
    assumptions=['key-switching code is in the core objects shared by all back-ends', 'rounding ties (a exactly half-way between two multiples of 2^(32-t*basebit)) may go either way'],
    jobs=_c08,
)

# ------------------------------------------------------------------------------------------------ C19
PROPS['C19'] = dict(
    technique='exhaustive enumeration of lambda in [-5,300] + extremes (one child each) and all 64 request histories over {1,80,81,128}; field-by-field oracle against the documented sets',
    level='exploration',
    rule='cases = lambda in [-5,300] + {INT32_MIN, INT32_MAX}, each in a forked child, per library variant, plus all 64 ordered triples over {1,80,81,128} requested in one process; oracle: SIGABRT outside [1,128]; documented 80-bit set '
         'for 1..80 and documented 128-bit set (README table) for 81..128 field by field; derived fields recomputed; structural constraints; formula noise <= bound and >= 12 sigma margin. every case is non-trivial',
    bounds={'quick': 'all 308 lambda + 100 values that alias a valid request when narrowed or negated x 5 back-ends (optim) + debug; every sequence of <= 4 operations over {request 80/128 here, request 80/128 on a worker thread that exits, delete oldest, delete newest}, every live set re-checked after every operation', 'thorough': 'all 308 lambda x 5 back-ends x {optim, debug}'},
    assumptions=['documented values are those of README.md (128-bit: n=630, 2^-15, N=1024, 2^-25) and of the 2016 historic set for 80-bit', 'noise formulas: average-case CGGI (Bg^2/12 digits), bounds 0.0037/0.0047 from the property text'],
    min_outcomes=3,
    jobs=lambda tier, seed: sum([J('c19.cpp', 'optim', be, n=2) for be in BE], []) + (sum([J('c19.cpp', 'debug', be, n=2) for be in BE], []) if tier == 'thorough' else J('c19.cpp', 'debug', n=2)),
)

# ------------------------------------------------------------------------------------------------ C20
PROPS['C20'] = dict(
    crash_is_violation=False,
    technique='exhaustive enumeration of configurations: 10 libraries x every API function, every header x {C99,C++11}, every public structure field (sizeof/offsetof C vs C++), 20 behavioural dumps',
    level='exploration',
    rule='cases = (API function) x 10 libraries [defined-with-C-linkage must agree], (header, language) compiled alone, (structure|field) sizeof/offsetof C vs C++, '
         '(language, build, back-end) behavioural dump, spqlios assembly offsets. The API, the header closure and the structure list are computed from the working tree at check time. '
         'non-trivial = API function defined somewhere, every header/field/dump case',
    bounds={'quick': 'complete: 5 back-ends x {optim, debug}, every header of the include closure of tfhe.h, every public structure and field; the dump program uses Lagrange objects from C (array of 3, every element a destination; caller-provided storage between guard words; in-place Mul/AddMul; callee-saved registers across the assembly routines; 4-byte aligned polynomial views)', 'thorough': 'same (the space is small and fully enumerated)'},
    assumptions=['public API = functions declared EXPORT in the include closure of tfhe.h', 'functions declared but defined in no variant are consistent (reported as information)'],
    min_outcomes=3,
    jobs=lambda tier, seed: [dict(harness='c20.py', variant='optim', backend='all', needs_variants=['debug'])],
)

# ------------------------------------------------------------------------------------------------ C10
def _c10(tier, seed):
    jobs = []
    for be in BE:
        jobs += J('c10.cpp', 'optim', be, n=3 if tier == 'quick' else 6, args=['part=basis'])
        jobs += J('c10.cpp', 'optim', be, n=1, args=['part=patterns'])
        jobs += J('c10.cpp', 'debug', be, n=1, args=['part=patterns'])
        jobs += J('c10.cpp', 'optim', be, n=1, args=['part=threads'], env={'VF_GUARD': 'after'}, extra_src=['guardalloc.cpp'])   # freed tables fault deterministically
        if tier == 'thorough':
            jobs += J('c10.cpp', 'debug', be, n=6, args=['part=basis'])
    return jobs
PROPS['C10'] = dict(
    technique='complete bilinear-basis sweep (all 1024^2 monomial pairs in the thorough tier) plus the full cross product of worst-case magnitude patterns on five back-ends, against the exact negacyclic product',
    level='exploration',
    rule='cases = (i) basis rows: (B X^i)*(c X^j) for the enumerated j and (B,c) combos through torusPolynomialMultFFT; (B, int pattern, torus pattern, seed) through Mult/AddMulR/SubMulR; '
         '(torus pattern pair) round trip, AddTo, Clear, Set/AddTorusConstant, Mul, AddMul/SubMul accumulation of 2..8 products. non-trivial = both operands non-zero (all cases). '
         'oracle = exact negacyclic product mod 2^32; tolerance 2 units for B<=2^9, 2B/2^9 above, 1 unit round trip, 2 units per accumulated term',
    bounds={'quick': 'N=1024; every i, j in {j = VERIF_SEED mod 16} + wrap boundaries, 2 coefficient combos; 5 magnitudes x 6 x 5 patterns; 25 Lagrange cases incl. aliased calls (Mul(B,A,B), Mul(A,A,B), AddMul/SubMul(B,A,B), AddTo(A,A), MultFFT(b,a,b)); 7 thread-lifetime histories under the guard allocator (first FFT user exits while another thread lives); 5 back-ends x optim (+ debug for patterns)',
            'thorough': 'all 1024^2 basis pairs x 6 coefficient combos x 5 back-ends x {optim, debug}; 3 seeds for seeded patterns'},
    assumptions=['N=1024 is the only ring size the FFT processors implement (asserted by the library)'],
    jobs=_c10, max_report=60,
)

# ------------------------------------------------------------------------------------------------ C03
def _c03(tier, seed):
    if tier == 'quick':
        return J('c03.cpp', 'optim', 'spqlios-fma', n=8) + J('c03.cpp', 'optim', 'fftw', n=4) + J('c03.cpp', 'debug', 'nayuki-portable', n=4)
    jobs = []
    for be in BE:
        jobs += J('c03.cpp', 'optim', be, n=3) + J('c03.cpp', 'debug', be, n=3, args=['K=1'])
    return jobs
PROPS['C03'] = dict(
    technique='exhaustive enumeration of scheme x dimension x message space (all messages) x noise level x key seed, plus all decrypt histories over parameter-set pairs; exact-equality oracle',
    level='exploration',
    rule='cases = (scheme, dimension, Msize, noise level index, key seed): all messages of [0,Msize) for Msize<=64 ({0,1,M/2,M-1} above) for LWE and TLWE-constant, '
         'a polynomial message carrying every message for TLWE/TGSW; trivial samples under several keys; 2000 fresh gate ciphertexts per default set. '
         'noise levels {0, 2^-30, 2^-25, <=2^-15, 1/(40M), 1/(20M)} (TGSW: up to 1/(20 Bg), its decryptable maximum). non-trivial = alpha>0 and message != 0. oracle: exact equality',
    bounds={'quick': 'every message of nine large message spaces (4.6 M) through the decryption rounding; LWE dimensions incl. 152, 250, 1023; ring masks k in 1..4 (TLWE), 1..3 (TGSW, re-keyed objects, trivial samples); K=1 key seed per cell; spqlios-fma + fftw (optim) + nayuki-portable (debug)', 'thorough': 'K=4 seeds x 5 back-ends (optim) + K=1 x 5 back-ends (debug)'},
    assumptions=['10 sigma margin: a correct tree fails a case with probability < 1e-22; every case is deterministic given (VERIF_SEED, case key)',
                 'TGSW decryptable maximum is what tGswSymDecrypt amplifies: Msize*alpha*(Bg/Msize) <= 1/20', 'ring schemes at N=1024 (FFT back-ends implement no other size)'],
    jobs=_c03,
)

# ------------------------------------------------------------------------------------------------ C05
def _c05(tier, seed):
    jobs = J('c05.cpp', 'optim', 'spqlios-fma', n=6, args=['part=single']) + J('c05.cpp', 'optim', 'spqlios-fma', n=6, args=['part=history'])
    jobs += J('c05.cpp', 'asan-debug', 'nayuki-portable', n=4, args=['part=single'])
    jobs += J('c05.cpp', 'optim', 'fftw', n=8, args=['part=reals'])
    if tier == 'thorough':
        jobs = J('c05.cpp', 'optim', 'spqlios-fma', n=8, args=['part=single'], deadline=2400, timeout=3000) + J('c05.cpp', 'optim', 'spqlios-fma', n=8, args=['part=history'])
        jobs += J('c05.cpp', 'asan-debug', 'nayuki-portable', n=6, args=['part=single', 'fullkeys=0'])
        jobs += J('c05.cpp', 'debug', 'fftw', n=4, args=['part=history'])
        jobs += J('c05.cpp', 'optim', 'fftw', n=16, args=['part=reals'], deadline=2400, timeout=3000)
    return jobs
PROPS['C05'] = dict(
    technique='exhaustive enumeration of object type x parameter/content alphabets x transport x concatenation histories (all ordered pairs/triples); byte-exact round-trip oracle',
    level='exploration',
    rule='cases = (dimension tuple, real-valued parameter tuple, content pattern, object type, transport) for the 13 stand-alone types; (reals, content, type, transport) for cloud/secret key sets at N=1024; '
         'the two default parameter sets; every ordered pair (thorough: triple) of the 15 types written back-to-back into one stream. oracle: field-for-field equality (doubles bit-for-bit, arrays memcmp, '
         'key-row variances against the common maximum), stream position, export(import(bytes)) == bytes, FILE bytes == stream bytes. non-trivial = a real not representable in 8 decimals or a binary section',
    bounds={'quick': 'a functional small key set: all gates under original and re-imported cloud key export to identical ciphertext bytes; 64 x 16384 pairs of doubles (seeded mantissas, exponents 2^-40..2^-1, short decimals) through LweParams/TLweParams; A, B (= A with ONE field changed: 4 reals, 6 integers), A imported from one stream for 15 types x 2 transports; 4 dimension tuples x 11 real tuples (1e-12..0.5 incl. 2^-15, 2^-25, 7.18e-9) x 6 contents x 13 types x 2 transports; key sets: 11 reals x seeded (+MIN, END-marker for 3); default sets; all 225 ordered pairs x 2 transports',
            'thorough': '+ all ordered triples (at most one key set per triple); complete default 80/128-bit key sets: every gate bit-identical under the re-imported cloud key, re-imported secret key decrypts identically'},
    assumptions=['variance of key rows is stored once and comes back as the common maximum (allowed by the statement)', 'key sets need N=1024 because import recomputes the FFT image'],
    jobs=_c05, max_report=12,
)

# ------------------------------------------------------------------------------------------------ C18
ASAN_INPROC = {'ASAN_OPTIONS': 'detect_leaks=0:abort_on_error=1:halt_on_error=1:handle_segv=0:handle_abort=0:handle_sigbus=0:allocator_may_return_null=1'}
def _c18(tier, seed):
    if tier == 'quick':
        return J('c18.cpp', 'optim', 'spqlios-fma', n=8) + J('c18.cpp', 'asan-debug', 'nayuki-portable', n=8, args=['inproc=1'], env=ASAN_INPROC, crash_is_violation=True)
    jobs = J('c18.cpp', 'optim', 'spqlios-fma', n=4) + J('c18.cpp', 'asan-debug', 'nayuki-portable', n=8, args=['inproc=1'], env=ASAN_INPROC, crash_is_violation=True) + J('c18.cpp', 'asan', 'spqlios-fma', n=8, args=['inproc=1'], env=ASAN_INPROC, crash_is_violation=True)
    jobs += J('c18.cpp', 'debug', 'fftw', n=4)
    return jobs
PROPS['C18'] = dict(
    technique='exhaustive fault enumeration: every proper prefix of every export (every crash point of the writer), every title/tag byte x 5 replacements, all 15x14 type substitutions, each import isolated; faithfulness oracle',
    level='fault_enumeration',
    rule='cases = (type, transport, prefix length) for every proper prefix of every export (every crash point of the writer); (type, transport, offset, replacement byte) for every byte of every title line '
         'and binary type tag x {0x00,0xFF,b+1,b-1,newline}; (type A, importer B != A, transport) substitutions. each import in a forked child. violation = normal return (clean stream) with an object that is not a '
         'faithful complete image of the bytes consumed, or a heap/stack overflow / use-after-free reported by ASan. every case is non-trivial (a fault is injected in each)',
    bounds={'quick': '15 types x 2 transports, every byte offset for exports <= 64 KB (13 types, n=3,N=2,k=1,l=1,t=2,basebit=1), boundary neighbourhoods + stride 509 for the two key sets (N=1024); 15x14 substitutions; optim (fork per case) + asan-debug (in-process, abort/null-fault unwound by longjmp)',
            'thorough': 'the full enumeration (incl. key sets) on optim/spqlios-fma, asan-debug/nayuki-portable, debug/fftw'},
    assumptions=['a null-page SIGSEGV (importers dereference the NULL the text parser returns at end of input) and abort() are terminations, which the property allows',
                 'a prefix that only lacks the final newline of a text-only object is a complete object'],
    min_outcomes=3,
    jobs=_c18, max_report=12,
)

# ------------------------------------------------------------------------------------------------ C17
PROPS['C17'] = dict(
    technique='enumeration of parameter set x key seed x transport x export order / multi-key-set sequences with exact size, prefix and every-offset substring-search oracles; entropy and file access interposed',
    level='exploration',
    rule='cases = (parameter set, key seed, transport): both default sets and four small custom sets (n in {8,9}, k in {1,2}, N=1024). oracle: exact length formula from the parameters; key-switch '
         'section = three public integers; cloud bytes strict prefix of the secret export, remainder = exactly the two key sections; LWE key / every ring key polynomial / concatenated ring key '
         'searched at every offset in 8 encodings (>=16 bytes) + half-overlapping windows; import with generator snapshot equal, open/fopen/read/getrandom/rand unreachable; structure holds 3 pointers. every case non-trivial',
    bounds={'quick': '8 parameter sets (two with noise parameters exactly 0: no zero-mask row) x 1 seed x 2 transports (80-bit default: FILE only); linear attack modulo 2 on the exported key-switching rows (n+64 equations) and bootstrapping-key rows (kN+64 equations)', 'thorough': '6 parameter sets x 3 seeds x 2 transports, spqlios-fma + fftw'},
    assumptions=['encodings shorter than 16 bytes are not searched (chance matches); the vacuity guard requires the same search to find the keys in the secret export'],
    jobs=lambda tier, seed: J('c17.cpp', 'optim', 'spqlios-fma', n=6, ldflags='-ldl') + (J('c17.cpp', 'debug', 'fftw', n=6, ldflags='-ldl') if tier == 'thorough' else []),
)

# ------------------------------------------------------------------------------------------------ C01
def _c01(tier, seed):
    if tier == 'quick':
        return J('c01.cpp', 'optim', 'spqlios-fma', n=12) + J('c01.cpp', 'optim', 'fftw', n=2, args=['kinds=2']) + J('c01.cpp', 'debug', 'nayuki-portable', n=4, args=['kinds=3', 'zonly=1']) + J('c01.cpp', 'optim', 'spqlios-avx', n=4, args=['keysets=1'])
    jobs = []
    for be in BE:
        jobs += J('c01.cpp', 'optim', be, n=4, deadline=2400, timeout=3000)
        jobs += J('c01.cpp', 'debug', be, n=4, args=['K=1', 'kinds=3'], deadline=2400, timeout=3000)
        jobs += J('c01.cpp', 'optim', be, n=4, args=['keysets=1'])
    jobs += J('c01.cpp', 'debug', 'nayuki-portable', n=4, args=['keysets=1'], deadline=2400, timeout=3000)
    return jobs
PROPS['C01'] = dict(
    technique='exhaustive enumeration of gate x truth row x input-kind tuple (fresh, trivial, bootstrapped, adversarial at the admissible limit, rounded-phase-0) x parameter-set history on the real library; truth-table and exact rounded-phase oracle',
    level='exploration',
    rule='cases = (parameter set, key seed, gate, truth row, input kind per wire) on one library variant per job; kinds: F fresh, P+/P- fresh with the true phase moved to +-1/8 +- (1/32 - 2^-20), T trivial, B output of a bootstrapped gate. '
         'oracle: bootsSymDecrypt == truth table; harness-side exact rounded phase p of the internal combination in the right half circle; output error < 1/32. non-trivial = bootstrapping gate with at least one non-trivial input',
    bounds={'quick': '14 gates x all rows x kinds {F,P+,P-}^arity x {80,128}-bit x 1 key seed on optim/spqlios-fma (+ {F,P+} on optim/fftw, + the rounded-phase-0 cases on debug/nayuki-portable); key-set histories (two key sets from one parameter object alive together, delete + re-generate, ciphertext arrays) and call shapes (result object = each input in turn, inputs with variance field 0 / 1) x {80,128}-bit on optim/spqlios-avx', 'thorough': 'all 5 kinds^arity x 2 key seeds x 5 back-ends (optim); kinds {F,P+,P-} x 1 seed x 5 back-ends (debug); key-set histories on 5 back-ends (optim) + debug/nayuki-portable'},
    assumptions=['every case is deterministic given (VERIF_SEED, case key); a correct tree fails a case with probability < 1e-50 (margin >= 17 sigma at the adversarial limit)'],
    jobs=_c01,
)

# ------------------------------------------------------------------------------------------------ C04
def _c04(tier, seed):
    g = dict(extra_src=['guardalloc.cpp'])
    jobs = J('c04.cpp', 'optim', 'spqlios-fma', n=13, args=['part=main'], deadline=(100 if tier == 'quick' else 2400), timeout=(300 if tier == 'quick' else 3000))
    jobs += J('c04.cpp', 'optim', 'spqlios-fma', n=1, args=['part=big'], env={'VF_GUARD': 'after', 'VF_GUARD_BIG': '65536'}, **g)
    jobs += J('c04.cpp', 'asan', 'nayuki-portable', n=1, args=['part=big'])
    if tier == 'thorough':
        for be in ['fftw', 'nayuki-avx', 'spqlios-avx']:
            jobs += J('c04.cpp', 'optim', be, n=4, args=['part=main'], deadline=2400, timeout=3000)
        jobs += J('c04.cpp', 'debug', 'nayuki-portable', n=8, args=['part=main', 'light=1'], deadline=2400, timeout=3000)
    return jobs
PROPS['C04'] = dict(
    technique='exhaustive sweep of all 2N rounded phases / boundary targets per configuration with harness-built exact keys; analytic error-budget oracle; guard pages and ASan for n > N',
    level='exploration',
    rule='cases = (group, configuration, input) with the rounded phase p predicted by the harness: trivial samples over all 2N cells (centre + both rounding edges) x 6 mu; n=1: every rounded mask value x boundary set of p; '
         'seeded/wrap-around masks of dimension n in {2,3,8,9,1100} with b solved so that p hits the target set; general test polynomials (constant, spikes, ramp, seeded) through blindRotateAndExtract[_FFT]; k in {1,2}, '
         '(l,Bgbit) in {(2,10),(3,7),(4,8),(2,16)}; variants woKS_FFT, FFT, woKS, coefficient-domain; real default keys. oracle: exact sign/coefficient within the analytic FFT+truncation budget (<< mu) with harness-built exact keys; '
         'sign + |error| < 3/64 with real keys. non-trivial = every case (p adjacent to a boundary or at least one CMux executed)',
    bounds={'quick': 'targets p in {0,1,2,N-2..N+1,2N-2,2N-1,511,1536}; all 2N cells for trivial samples (mu 1/8,-1/8; boundary cells for the other four); all 2N mask values for n=1; n=1100 under guard pages and ASan; 64 boundary p per default key; key lifetimes (FFT key used after bk was refilled with another key set / deleted, second key set alive) for k in {1,2}, also under guard pages and ASan',
            'thorough': 'every p in [0,2N) for n<=3, for the FFT test-polynomial sweep and for both default keys; 4 back-ends optim + debug'},
    assumptions=['exact-key budget: nz*(1+kN)*(2*max(1,Bg/2^10) + 2^(32-l*Bgbit)) units per blind rotation, + kN*2^(31-t*basebit) for the key switch (noiseless harness-built key-switching key)',
                 'an exact rounding tie in an input coefficient lets the neighbouring p be accepted'],
    jobs=_c04,
)

# ------------------------------------------------------------------------------------------------ C09
def _c09(tier, seed):
    if tier == 'quick':
        return J('c09.cpp', 'optim', 'spqlios-fma', n=12) + J('c09.cpp', 'optim', 'nayuki-portable', n=4, args=['part=rotate'])
    jobs = []
    for be in BE:
        jobs += J('c09.cpp', 'optim', be, n=4, deadline=2400, timeout=3000)
    jobs += J('c09.cpp', 'debug', 'fftw', n=6, deadline=2400, timeout=3000, args=['part=rotate'])
    return jobs
PROPS['C09'] = dict(
    technique='enumeration of message x TLWE content x layout x variant with harness-built TGSW rows of known error: exact phase identity against the analytic bound; all exponent vectors over the boundary alphabet',
    level='exploration',
    rule='cases = (k, l, Bgbit, row kind, message m, position j, TLWE content) through the three external-product variants; (n, k, l, Bgbit, exponent vector) through tfhe_blindRotate[_FFT]. TGSW rows are built by the harness '
         'with exact arithmetic and known errors e_p. oracle: phase(result) - m*phase(c) - sum dec_p*e_p within |m|_1 (1+kN) 2^(32-l Bgbit) + FFT budget (exact gadget + noiseless rows: FFT rounding only); variants agree at ciphertext level; '
         'phase(acc_out) = X^(sum bara_i s_i) phase(acc_in); all-zero exponents leave the accumulator bit-identical. non-trivial = m != 0 and c non-trivial; rotations with a non-zero exponent',
    bounds={'quick': '14 (k,l,Bgbit) cells incl. (8,4),(2,16),(1,8),(32,1),(20,1),(16,2),(2,15), k=3; tGswFFTClear+tGswFFTAddH = the sample of 1 for every cell; m in {0,1,-1,X^1,X^512,X^1023,1+X,-X^(N-1),small-norm}; 6 TLWE contents; noisy rows for two layouts; n=1: bara = VERIF_SEED mod 16 class + boundaries, n=2,3: {0,1,N-1,N,N+1,2N-1}^n',
            'thorough': 'X^j for every j on the default 80-bit layout (stride 97 elsewhere); every bara in [0,2N) for n=1; 5 back-ends'},
    assumptions=['digits dec_p are those the library produces for a copy of the input (their correctness is C12)', 'FFT budget per product 2*max(1,Bg/2^10) units per coefficient, amplified by (1+kN) at phase level'],
    jobs=_c09,
)

# ------------------------------------------------------------------------------------------------ C15
def _c15(tier, seed):
    jobs = J('c15.cpp', 'optim', 'spqlios-fma', n=12)
    jobs += J('c15.cpp', 'debug', 'nayuki-portable', n=4, args=['default=none'])
    # keys and inputs write-protected during every call (guard allocator): transient writes fault
    jobs += J('c15.cpp', 'optim', 'spqlios-avx', n=4, args=['default=none'], env={'VF_GUARD': 'after', 'VF_GUARD_MAX': '31000'}, extra_src=['guardalloc.cpp'])
    jobs += J('c15.cpp', 'optim', 'fftw', n=4, args=['default=none'], env={'VF_GUARD': 'after', 'VF_GUARD_MAX': '31000'}, extra_src=['guardalloc.cpp'])
    if tier == 'thorough':
        for be in ['fftw', 'nayuki-avx', 'spqlios-avx']:
            jobs += J('c15.cpp', 'optim', be, n=6)
    return jobs
PROPS['C15'] = dict(
    technique='exhaustive enumeration of gate x truth row x aliasing pattern and of 17 evaluation functions x parameter cells, with byte-snapshot / deep-hash / generator-state oracles',
    level='exploration',
    rule='cases = (key set, gate, truth row, aliasing pattern) with patterns: unary {A,R}; binary {AB,RB,AR,AA,RR}; MUX {ABC,RBC,ARC,ABR,AAC,ABB,ABA,AAA,RRC,ARR,RBR,RRR} (R = the result object); '
         '(parameter cell, evaluation function, content) for 17 evaluation functions. oracle: aliased result bytes == result of the same call on distinct copies; every non-result input byte-identical; deep hash of the '
         'cloud key (parameters, key-switching rows, TGSW rows, FFT image) unchanged; generator state (operator<<) unchanged. non-trivial = call that bootstraps or decomposes',
    bounds={'quick': 'tiny exact key (n=8): all gates x all rows x all patterns; 5 parameter cells (incl. l=1, k=2, exact gadgets) x 17 functions x 4 contents; default 128-bit key: 3 rows per gate x all patterns; on spqlios-avx and fftw with the guard allocator: key set and inputs write-protected during every call', 'thorough': '+ 80-bit default key, 4 back-ends'},
    assumptions=['evaluation is deterministic (C06), so an aliased call can be compared byte-for-byte with the unaliased one'],
    jobs=_c15,
)

# ------------------------------------------------------------------------------------------------ C06
def _c06(tier, seed):
    jobs = []
    for be in BE:
        jobs += J('c06.cpp', 'optim', be, n=9, args=['part=sched'] + (['threads=2'] if tier == 'quick' else ['threads=2', 'tiny_n=2']), ldflags='-ldl', deadline=(100 if tier == 'quick' else 1500))
    # histories run on an unperturbed heap: what an earlier operation left in freed memory must stay visible to the next one
    jobs += J('c06.cpp', 'optim', 'spqlios-fma', n=8, args=['part=hist'], ldflags='-ldl', env={'MALLOC_PERTURB_': '0'})
    # (d) free-running ThreadSanitizer pass: supporting evidence; a TSan report (exit 66) is attributed to the scenario in flight
    for be in (['nayuki-portable', 'fftw'] if tier == 'quick' else BE):
        jobs += J('c06_free.cpp', 'tsan', be, n=2, ldflags='-ldl', crash_is_violation=True, env={'TSAN_OPTIONS': 'halt_on_error=1:exitcode=66:report_signal_unsafe=0:second_deadlock_stack=1'})
    # model + conformance: Promela model generated from the recorded protocol, Spin for 2..4 threads, model traces replayed on the implementation
    jobs += [dict(harness='c06_spin.py', variant='optim', backend='fftw', needs_harness=[dict(harness='c06.cpp', variant='optim', backend='fftw', ldflags='-ldl')], timeout=(300 if tier == 'quick' else 3000))]
    if tier == 'thorough':
        for be in ['spqlios-fma', 'fftw', 'nayuki-portable']:
            jobs += J('c06.cpp', 'optim', be, n=5, args=['part=sched', 'threads=3', 'bound=2', 'tiny_n=1'], ldflags='-ldl', deadline=2400, timeout=3000)
        for be in ['fftw', 'spqlios-fma']:   # preemption bound 3 for the smaller scenarios
            for sc in ['H1', 'K-', 'K2', 'H6']:
                jobs += J('c06.cpp', 'optim', be, n=4, args=['part=sched', 'threads=2', 'bound=3', 'tiny_n=1', 'scenario=' + sc], ldflags='-ldl', deadline=2400, timeout=3000)
        jobs += J('c06.cpp', 'debug', 'fftw', n=8, args=['part=hist', 'depth=2'], ldflags='-ldl', deadline=2400, timeout=3000, env={'MALLOC_PERTURB_': '0'})
    return jobs
PROPS['C06'] = dict(
    level='model_checking',
    technique='stateless model checking of the real library under a controlled scheduler: exhaustive enumeration of all schedules with <= 2 preemptions over interposed synchronisation points; exhaustive operation histories up to depth 2-3',
    rule='schedules: all interleavings with at most B preemptions (B=0,1,2 completed in order) of T real threads running scenario bodies on the real library; scheduling points = FFT kernel calls (pre/post), FFTW planner calls, '
         'pthread_mutex_lock/unlock (blocking modelled), decomposition and Karatsuba entry, thread exit (thread_local destructors). oracles: every thread output byte-identical to its sequential reference, no deadlock, '
         'no two threads at FFTW planner calls without a common lock. histories: every sequence of <= depth operations over a 14-operation alphabet on a fresh thread, then a probe (3 gates): bytes == reference. '
         'non-trivial = schedule with at least one preemption / non-empty history',
    bounds={'quick': '2 threads, <= 2 preemptions, 9 scenarios (FFT products, external products with shared key, gates with shared cloud key (n=1), gate vs key generation, Karatsuba products, gates / a direct bootstrap / COPY / NOT on SHARED input ciphertexts, Karatsuba products with shared operands, thread churn with 31 and 63 short-lived threads between two live ones) x 5 back-ends; histories depth 2 (211 sequences), probe = 4 gates with the 128-bit key + NAND, MUX and an FFT external product under a k=2 key, on an unperturbed heap',
            'thorough': '+ 3 threads (3 back-ends), tiny key n=2, histories depth 3; <= 3 preemptions for the FFT-product, Karatsuba and shared-input scenarios on fftw and spqlios-fma'},
    assumptions=['preemption happens only at the interposed points (the code has no atomics; no memory-ordering effects below that granularity are modelled)',
                 'data races invisible to the scheduler are the business of the free-running TSan pass (supporting evidence, blind to the assembly kernels)'],
    jobs=_c06, max_report=6, min_outcomes=1,
)

# ------------------------------------------------------------------------------------------------ C07
import math
_C07_SIG = {'2^-30': 2.0**-30, '2^-25': 2.0**-25, '7.18e-9': 7.18e-9, '2^-15': 2.0**-15, '2.44e-5': 2.44e-5, '2^-10': 2.0**-10, '2^-5': 2.0**-5}
def _c07_post(st, tier):
    v = []
    def moments(pfx):
        n = st.get('sum_' + pfx + '/n', 0)
        if n < 1000: return None
        s1, s2, s4 = st['sum_' + pfx + '/s1'], st['sum_' + pfx + '/s2'], st['sum_' + pfx + '/s4']
        mean = s1 / n; var = s2 / n - mean * mean
        return n, mean, math.sqrt(max(var, 0)), (s4 / n) / (s2 / n) ** 2 if s2 else 0, st.get('max_' + pfx + '/maxabs', 0), st.get('sum_' + pfx + '/zeros', 0)
    for name, sig in list(_C07_SIG.items()) + [('ENC', 2.0**-15)]:
        pfx = 'lweSymEncrypt/2^-15' if name == 'ENC' else 'gauss/' + name
        m = moments(pfx)
        if not m: continue
        n, mean, sd, kurt, mx, zeros = m; su = sig * 2.0**32; tol = max(1e-3, 8 / math.sqrt(2 * n))
        what = ('error of lweSymEncrypt (sigma 2^-15)' if name == 'ENC' else 'gaussian32(0, %s)' % name) + ' over %d generator states' % n
        if abs(mean) > tol * su + 1: v.append((pfx + '/mean', '%s: mean %.4f units (sigma = %.1f units)' % (what, mean, su)))
        if abs(sd - su) > tol * su + 1: v.append((pfx + '/stdev', '%s: stdev %.4f units, configured %.4f (ratio %.6f)' % (what, sd, su, sd / su)))
        if su >= 64 and abs(kurt - 3) > max(0.02, 8 * math.sqrt(24 / n)): v.append((pfx + '/kurtosis', '%s: kurtosis %.4f, a gaussian has 3' % (what, kurt)))
        if mx < 4 * su - 1: v.append((pfx + '/tails', '%s: largest |error| %.1f units < 4 sigma: no tails' % (what, mx)))
        if su >= 64 and zeros > n / 8: v.append((pfx + '/zeros', '%s: %d of %d draws are exactly 0' % (what, zeros, n)))
    n = st.get('sum_uniform/n', 0)
    if n > 1000:
        tol = max(1e-3, 8 / math.sqrt(n))
        mean = st['sum_uniform/s1'] / n; var = st['sum_uniform/s2'] / n - mean * mean; lag = (st['sum_uniform/lag'] / n - mean * mean) / var if var else 1
        if abs(var * 12 - 1) > 4 * tol: v.append(('uniform/variance', 'uniform torus draws over %d states: 12*variance = %.6f' % (n, var * 12)))
        if abs(mean) > tol: v.append(('uniform/mean', 'uniform torus draws: mean %.6f' % mean))
        if abs(lag) > 2 * tol: v.append(('uniform/lag1', 'uniform torus draws: correlation between consecutive draws %.6f' % lag))
        htol = max(1e-3, 8 / math.sqrt(n / 256))
        for b in range(4):
            for x in range(256):
                h = st.get('sum_uniform/hist/%d/%03d' % (b, x), 0) * 256 / n
                if abs(h - 1) > htol:
                    v.append(('uniform/hist/byte%d' % b, 'uniform torus draws: byte %d takes value %d with relative frequency %.5f (flat = 1, tolerance %.5f)' % (b, x, h, htol))); break
        ones = st.get('sum_keybit/ones', 0) / n
        if abs(ones - 0.5) > max(1e-4, 4 / math.sqrt(n)): v.append(('keybit/frequency', 'key bits over %d states: frequency of 1 is %.6f' % (n, ones)))
    # key-switching row noise pooled over all keys and seeds of one (t, basebit, alpha) shape
    for k in sorted(st):
        if k.startswith('sum_ksnoise/') and k.endswith('/n'):
            pfx = k[4:-2]; n = st[k]
            if n < 2000: continue
            alpha = float(pfx.split('alpha=')[1]); au = alpha * 2.0**32; mean = st['sum_' + pfx + '/s1'] / n; sd = math.sqrt(max(st['sum_' + pfx + '/s2'] / n - mean * mean, 0)); band = 8 * au / math.sqrt(2 * n) + 1.5
            if abs(sd - au) > band: v.append((pfx, 'key-switching rows pooled over keys (%d rows, %s): error stdev %.2f units, configured %.2f (allowed deviation %.2f)' % (n, pfx, sd, au, band)))
    return v
def _c07(tier, seed):
    q = tier == 'quick'
    jobs = J('c07.cpp', 'optim', 'spqlios-fma', n=(8 if q else 16), args=['part=states'], ldflags='-ldl', deadline=(100 if q else 2400), timeout=(300 if q else 3000))
    jobs += J('c07.cpp', 'optim', 'spqlios-fma', n=(6 if q else 8), args=['part=objects'] + (['K=4'] if q else []), ldflags='-ldl', deadline=(100 if q else 2400), timeout=(300 if q else 3000))
    jobs += J('c07.cpp', 'optim', 'spqlios-fma', n=3, args=['part=seeding'], ldflags='-ldl')
    if not q:
        jobs += J('c07.cpp', 'optim', 'fftw', n=6, args=['part=objects', 'K=2'], ldflags='-ldl', deadline=2400, timeout=3000) + J('c07.cpp', 'debug', 'nayuki-portable', n=3, args=['part=seeding'], ldflags='-ldl')
    return jobs
PROPS['C07'] = dict(
    technique='exhaustive sweep of all 2^31-2 generator states (population moments judged on merged sums), enumerated key-seed range with stratified 8-estimator-sigma bands, all re-seeding histories over an 11-operation alphabet',
    level='exploration',
    rule='(a) every state of the library generator (minstd_rand0, 2^31-2 states; quick: the residue class VERIF_SEED mod 64): one gaussian32 draw per sigma, a uniform torus draw and its successor, a key bit, two lweSymEncrypt (n=2); '
         'population moments judged on the merged sums (mean, stdev/sigma, kurtosis, tails, byte histograms, lag-1 correlation). (b) (parameter set, key seed): error of every key-switching row and every bootstrapping-key coefficient '
         'computed with the secret keys, stratified by digit/value/key bit/block/row/lane: stdev within 8 estimator sigma (+1.5 units) of the configured level, |e| <= 8 sigma, h=0 rows trivial, masks flat, keys binary and balanced, '
         're-keyed objects. (c) (seed, history pair): re-seeding reproduces the same bytes after any history; different seeds differ; no other entropy source reached. non-trivial = state / stratum with >= 200 errors / non-empty history',
    bounds={'quick': 'states: 1/64 of all 2^31 states (3.3e7) for sigma in {2^-30,2^-25,2^-15}; objects: default-128, default-80 (1 seed) + 8 small sets + 2 noiseless sets x 2 seeds, each small set generated a second time into the same objects (per-stratum judgement of the key-switching rows; the key-switching key inside the FFT key = the generated rows); seeding: 3 seeds x 11x11 history pairs',
            'thorough': 'all 2^31-2 states x 7 sigma; default sets x 4 seeds, 24 small sets x 8 seeds; two back-ends'},
    assumptions=['distributions depend on libstdc++ normal_distribution / uniform_int_distribution (trusted base)', 'statistical acceptance regions are >= 8 estimator standard deviations wide, as the property prescribes'],
    jobs=_c07, post=_c07_post, max_report=10,
)

# ------------------------------------------------------------------------------------------------ C02
def _c02(tier, seed):
    jobs = []
    if tier == 'quick':
        for lam in (128, 80):
            jobs += J('c02.cpp', 'optim', 'spqlios-fma', args=['part=bfs', 'w=2', 'lambda=%d' % lam, 'threads=7'], timeout=600, deadline=400)
            jobs += J('c02.cpp', 'optim', 'spqlios-fma', args=['part=corpus', 'lambda=%d' % lam])
            jobs += J('c02.cpp', 'optim', 'spqlios-fma', args=['part=strata', 'lambda=%d' % lam, 'threads=6'], timeout=600, deadline=400)
        return jobs
    for lam in (128, 80):
        jobs += J('c02.cpp', 'optim', 'spqlios-fma', args=['part=bfs', 'w=3', 'lambda=%d' % lam, 'threads=8'], timeout=6000, deadline=5400)
        jobs += J('c02.cpp', 'optim', 'spqlios-fma', args=['part=corpus', 'lambda=%d' % lam], timeout=3000, deadline=2400)
        jobs += J('c02.cpp', 'optim', 'spqlios-fma', args=['part=strata', 'lambda=%d' % lam, 'threads=8'], timeout=3000, deadline=2400)
    for be in ['fftw', 'nayuki-avx', 'nayuki-portable', 'spqlios-avx']:
        jobs += J('c02.cpp', 'optim', be, args=['part=bfs', 'w=2', 'lambda=128', 'threads=4'], timeout=6000, deadline=5400)
    jobs += J('c02.cpp', 'debug', 'spqlios-fma', args=['part=bfs', 'w=2', 'lambda=80', 'threads=4'], timeout=6000, deadline=5400)
    return jobs
PROPS['C02'] = dict(
    level='model_checking',
    technique='explicit-state breadth-first search over the real transition function (every gate x every register choice executed on the real library with real default keys), abstract-state hashing, fix-point; plus a plaintext-interpreter corpus',
    rule='state = register file of w ciphertexts, abstract key = per register (bit, kind in {T,F,B,M,P}); transitions = 14 gates x every destination/source choice (in-place and shared inputs included) + FRESH + INJECT(+-) at the admissible limit; '
         'BFS to the fix-point, one concrete representative per abstract state. oracles per transition: decryption == plaintext netlist, |output error| < 3/64; per pool (>= 500 outputs): stdev < bound (0.0037 / 0.0047, x1.35 MUX), |mean| <= bound/4; '
         'input-independence on independent samples: per input class {fresh, outputs of independent gates, adversarial, depth-6 chains, mixed} n evaluations sharing nothing; the strata agree within 8 estimator sigma (the BFS pools reuse one representative per abstract state, so they are correlated: bound checks there use n/16 as effective size and are not compared with each other). non-trivial = pools/strata judged',
    bounds={'quick': 'w=2 (100 abstract states x 116 operations = 11600 transitions per parameter set) for both default sets on spqlios-fma; corpus: 8-bit adder x2, comparator, 8:1 MUX tree, 200-gate in-place chain, fan-out parity net',
            'thorough': 'w=3 (1000 abstract states x 423 operations) for both sets; w=2 on the other four back-ends and on debug; 1000-gate chain'},
    assumptions=['the abstraction (bit, kind) is sound iff a bootstrapped output\'s noise does not depend on its history - which is the second half of the property and is checked on the same run (strata by input class and depth)',
                 'fresh ciphertexts inside the search are made by the harness with the parameter set\'s noise level and a deterministic generator (library encryption is C03/C07)'],
    jobs=_c02, min_outcomes=10, max_report=2,
)

# ------------------------------------------------------------------------------------------------ C16
def _c16(tier, seed):
    g = dict(extra_src=['guardalloc.cpp'])
    q = tier == 'quick'; dl = dict(deadline=(100 if q else 2400), timeout=(300 if q else 3000))
    jobs = J('c16.cpp', 'optim', 'spqlios-fma', n=(5 if q else 8), args=['part=cells'], env={'VF_GUARD': 'after', 'VF_FILL': '0xA5'}, **g, **dl)
    jobs += J('c16.cpp', 'optim', 'spqlios-fma', n=(5 if q else 8), args=['part=cells'], env={'VF_GUARD': 'before', 'VF_FILL': '0x3F'}, **g, **dl)
    jobs += J('c16.cpp', 'asan', 'nayuki-portable', n=(4 if q else 8), args=['part=cells'], cxxflags='-DVF_NO_GUARDALLOC', **dl)
    jobs += J('c16.cpp', 'asan', 'fftw', n=1, args=['part=handoff'], cxxflags='-DVF_NO_GUARDALLOC')
    jobs += J('c16.cpp', 'asan', 'spqlios-fma', n=2, args=['part=placement'], cxxflags='-DVF_NO_GUARDALLOC')
    jobs += J('c16.cpp', 'optim', 'fftw', n=2, args=['part=placement'], env={'VF_GUARD': 'after', 'VF_FILL': '0xA5'}, **g)
    jobs += J('c16.cpp', 'debug', 'nayuki-portable', n=2, args=['part=placement'], env={'VF_GUARD': 'before', 'VF_FILL': '0x3F'}, **g)
    for be in BE:
        jobs += J('c16.cpp', 'optim', be, n=1, args=['part=threads'], env={'VF_GUARD': 'off'}, **g)
        jobs += J('c16.cpp', 'optim', be, n=1, args=['part=handoff'], env={'VF_GUARD': 'after', 'VF_FILL': '0xA5'}, **g)   # freed per-thread state faults
    if not q:
        jobs += J('c16.cpp', 'asan-debug', 'fftw', n=8, args=['part=cells'], cxxflags='-DVF_NO_GUARDALLOC', **dl)
        jobs += J('c16.cpp', 'optim', 'fftw', n=6, args=['part=cells'], env={'VF_GUARD': 'after', 'VF_FILL': '0x11'}, **g, **dl)
        jobs += J('c16.cpp', 'optim', 'nayuki-avx', n=6, args=['part=cells'], env={'VF_GUARD': 'after', 'VF_FILL': '0xEE'}, **g, **dl)
        # valgrind memcheck on the vg variant (optim without AVX-512: the AVX2 inline-asm and .s paths stay on): reduced matrix; sees uninitialised reads and stack accesses in the assembly
        VG = ['valgrind', '-q', '--error-exitcode=99', '--undef-value-errors=yes', '--leak-check=no']
        for be in ['spqlios-fma', 'nayuki-avx']:
            jobs += J('c16.cpp', 'vg', be, n=6, args=['part=cells', 'cells=small'], cxxflags='-DVF_NO_GUARDALLOC', wrapper=VG, crash_is_violation=True, deadline=2400, timeout=3000)
    return jobs
PROPS['C16'] = dict(
    technique='enumeration of the configuration matrix x complete API lifecycles x deletion orders and of thread create/use/exit histories under fault oracles: guard pages, ASan+UBSan, fill-pattern A/B digests, live-allocation steady state, memcheck',
    level='fault_enumeration',
    rule='cases = (n, k, l, Bgbit, t, basebit) cells of the configuration matrix x a complete API lifecycle (keygen, encrypt, 14 gates, export/import on both transports, gates with the imported keys, secret-key round trip, array allocators '
         'with 0/1/3 elements, the four deletions in one of the 24 orders - all 24 on the small default-layout cells -, collector finalize), run twice; (concurrent threads, FFT uses) thread create/use/exit histories x 5 back-ends. '
         'oracles by job: guard pages after / before every heap block on the optim build (inline asm and .s accesses), ASan+UBSan build, digests equal under two different fill patterns of fresh memory (xcmp), live heap blocks stationary. '
         'non-trivial = every cell (a full lifecycle) / thread history with FFT use',
    bounds={'quick': 'n in {1,7,8,9,1025} x k in {1,2} with the default layouts, the (l,Bgbit) and (t,basebit) grids for n<=9,k=1, one k=2 n=1025 cell; key material <= 64 MB per cell; thread histories 1-3 threads x {0,1,3} uses x 5 back-ends; 10 ownership hand-off histories (Lagrange / TGSW-FFT / key-set objects made by a thread that exits, used and deleted by another) x 5 back-ends under guard pages + ASan; alloc/init/destroy/init/destroy/free cycles for 17 types x {single, array of 0, 1, 3}; noiseless twins of the small default-layout cells',
            'thorough': 'whole matrix n in {1,3,7,8,9,500,630,1024,1025,1100} x k x 6 (l,Bgbit) x 5 (t,basebit) with key material <= 300 MB (excluded cells listed in the evidence); + asan-debug/fftw, guard pages on fftw and nayuki-avx, valgrind memcheck on the vg build for a reduced matrix (n in {1,7,9})'},
    assumptions=['valgrind memcheck cannot execute the -march=native build on this CPU (AVX-512); guard pages on the real optim build are the oracle for the assembly paths', 'guard pages: at most ~24000 live guarded blocks (vm.max_map_count); the rest is served unguarded and counted'],
    jobs=_c16, max_report=10,
)
