// ioobjs.hpp — the 15 serialisable object types of tfhe_io.h behind one table (used by C05, C17, C18).
#pragma once
#include <tfhe.h>
#include <tfhe_io.h>
#include <sstream>
#include <string>
#include <vector>
#include <functional>
#include <cstring>
#include <cstdio>
#include "vf.hpp"

namespace io {

struct Cfg { int n = 3, N = 8, k = 1, l = 2, Bgbit = 4, t = 2, basebit = 1; double la_min = 0.125, la_max = 0.25, ta_min = 0.0625, ta_max = 0.5; int content = 5; uint64_t seed = 1; bool keysets = false; };

// content patterns for raw 32-bit arrays
inline void fill32(int32_t *p, size_t n, int content, uint64_t &x) {
    static const char END[] = "\n-----END LWEPARAMS-----\n-----BEGIN TLWEPARAMS-----\nn: 7\n";
    for (size_t i = 0; i < n; i++) switch (content) {
        case 0: p[i] = 0; break; case 1: p[i] = INT32_MIN; break; case 2: p[i] = INT32_MAX; break;
        case 3: { uint32_t v = 0; for (int b = 0; b < 4; b++) v |= (uint32_t)(unsigned char)END[(i * 4 + b) % (sizeof(END) - 1)] << (8 * b); p[i] = (int32_t)v; break; }
        case 4: p[i] = (i & 1) ? 0x0A0D0A0D : 0x0D0D0A0A; break;
        default: p[i] = (int32_t)vf::splitmix(x); }
}
inline const char *content_name(int c) { static const char *n[] = {"zeros", "INT32_MIN", "INT32_MAX", "END-marker-bytes", "CRLF-runs", "seeded"}; return n[c < 5 ? c : 5]; }

struct World {
    Cfg c;
    LweParams *lp = 0; TLweParams *tp = 0; TGswParams *gp = 0;
    LweSample *ls = 0; LweKey *lk = 0; TLweSample *ts = 0; TLweKey *tk = 0; TGswSample *gs = 0; TGswKey *gk = 0;
    LweKeySwitchKey *ks = 0; LweBootstrappingKey *bk = 0; TFheGateBootstrappingParameterSet *ps = 0;
    TFheGateBootstrappingSecretKeySet *sks = 0; LweSample *gc = 0; LweKey *sk_lwe = 0; TGswKey *sk_tgsw = 0; LweBootstrappingKey *sk_bk = 0;
    explicit World(const Cfg &cfg) : c(cfg) {
        uint64_t x = c.seed * 0x9E37 + c.content;
        lp = new_LweParams(c.n, c.la_min, c.la_max); tp = new_TLweParams(c.N, c.k, c.ta_min, c.ta_max); gp = new_TGswParams(c.l, c.Bgbit, tp);
        ls = new_LweSample(lp); fill32(ls->a, c.n, c.content, x); fill32(&ls->b, 1, c.content, x); ls->current_variance = 1.0 / 3.0;
        lk = new_LweKey(lp); fill32(lk->key, c.n, c.content == 5 ? 5 : c.content, x); if (c.content == 5) for (int i = 0; i < c.n; i++) lk->key[i] &= 1;
        ts = new_TLweSample(tp); for (int i = 0; i <= c.k; i++) fill32(ts->a[i].coefsT, c.N, c.content, x); ts->current_variance = 2.0 / 7.0;
        tk = new_TLweKey(tp); for (int i = 0; i < c.k; i++) { fill32(tk->key[i].coefs, c.N, c.content, x); if (c.content == 5) for (int j = 0; j < c.N; j++) tk->key[i].coefs[j] &= 1; }
        gs = new_TGswSample(gp); for (int p = 0; p < gp->kpl; p++) { for (int i = 0; i <= c.k; i++) fill32(gs->all_sample[p].a[i].coefsT, c.N, c.content, x); gs->all_sample[p].current_variance = 0.001 * (p + 1) / 3.0; }
        gk = new_TGswKey(gp); for (int i = 0; i < c.k; i++) { fill32(gk->key[i].coefs, c.N, c.content, x); if (c.content == 5) for (int j = 0; j < c.N; j++) gk->key[i].coefs[j] &= 1; }
        ks = new_LweKeySwitchKey(c.n + 1, c.t, c.basebit, lp);
        { int tot = (c.n + 1) * c.t * (1 << c.basebit); for (int r = 0; r < tot; r++) { fill32(ks->ks0_raw[r].a, c.n, c.content, x); fill32(&ks->ks0_raw[r].b, 1, c.content, x); ks->ks0_raw[r].current_variance = 1e-3 * ((r * 7) % tot + 1) / 9.0; }
          if (c.content % 2 == 0) ks->ks0_raw[(tot / (1 << c.basebit) / 2) * (1 << c.basebit)].current_variance = 0.5; /* even contents: the largest variance sits on a digit-value-0 row */ }
        bk = new_LweBootstrappingKey(c.t, c.basebit, lp, gp); fill_bk(bk, x);
        ps = new TFheGateBootstrappingParameterSet(c.t, c.basebit, lp, gp);
        gc = new_LweSample(lp); fill32(gc->a, c.n, c.content, x); fill32(&gc->b, 1, c.content, x); gc->current_variance = 0.04 / 3.0;
        if (c.keysets) { // needs N = 1024 (the importer recomputes the FFT image)
            sk_bk = new_LweBootstrappingKey(c.t, c.basebit, lp, gp); fill_bk(sk_bk, x);
            sk_lwe = new_LweKey(lp); for (int i = 0; i < c.n; i++) sk_lwe->key[i] = (int)(vf::splitmix(x) & 1);
            sk_tgsw = new_TGswKey(gp); for (int i = 0; i < c.k; i++) for (int j = 0; j < c.N; j++) sk_tgsw->key[i].coefs[j] = (int)(vf::splitmix(x) & 1);
            LweBootstrappingKeyFFT *f = new_LweBootstrappingKeyFFT(sk_bk);
            sks = new TFheGateBootstrappingSecretKeySet(ps, sk_bk, f, sk_lwe, sk_tgsw);
        }
    }
    void fill_bk(LweBootstrappingKey *b, uint64_t &x) {
        int kN = c.k * c.N; int tot = kN * c.t * (1 << c.basebit);
        for (int r = 0; r < tot; r++) { fill32(b->ks->ks0_raw[r].a, c.n, c.content, x); fill32(&b->ks->ks0_raw[r].b, 1, c.content, x); b->ks->ks0_raw[r].current_variance = 1e-4 * ((r * 5) % tot + 1) / 7.0; }
        if (c.content % 2 == 0) b->ks->ks0_raw[0].current_variance = 0.25;
        for (int i = 0; i < c.n; i++) for (int p = 0; p < gp->kpl; p++) { for (int q = 0; q <= c.k; q++) fill32(b->bk[i].all_sample[p].a[q].coefsT, c.N, c.content, x); b->bk[i].all_sample[p].current_variance = 1e-5 * ((i * gp->kpl + p) * 3 % (c.n * gp->kpl) + 1) / 11.0; }
    }
    ~World() { /* objects are small; the process is short-lived (forked per case) — leaks here are irrelevant to the properties checked */ }
};

// ---------- byte transports
struct Out { bool file; std::ostringstream os; char *buf = nullptr; size_t len = 0; FILE *F = nullptr;
    explicit Out(bool f) : file(f) { if (file) F = open_memstream(&buf, &len); }
    std::string bytes() { if (file) { fflush(F); return std::string(buf, len); } return os.str(); }
    ~Out() { if (F) fclose(F); free(buf); } };
struct In { bool file; std::string data; std::istringstream is; FILE *F = nullptr;
    In(bool f, const std::string &d) : file(f), data(d), is(d) { if (file) { F = data.empty() ? fopen("/dev/null", "rb") : fmemopen((void *)data.data(), data.size(), "rb"); } }
    bool clean() { return file ? !ferror(F) : is.good() || (is.eof() && !is.fail()); } // "clean stream": no fail/bad bit
    bool failed() { return file ? ferror(F) != 0 : is.fail(); }
    long pos() { if (file) return ftell(F); is.clear(); return (long)is.tellg(); }
    ~In() { if (F) fclose(F); } };

inline bool deq(double a, double b) { return memcmp(&a, &b, 8) == 0; }
inline std::string cmp_lwep(const LweParams *a, const LweParams *b) { if (a->n != b->n) return vf::fmt("n %d vs %d", a->n, b->n); if (!deq(a->alpha_min, b->alpha_min)) return vf::fmt("alpha_min %.17g vs %.17g", a->alpha_min, b->alpha_min); if (!deq(a->alpha_max, b->alpha_max)) return vf::fmt("alpha_max %.17g vs %.17g", a->alpha_max, b->alpha_max); return ""; }
inline std::string cmp_tlwep(const TLweParams *a, const TLweParams *b) { if (a->N != b->N || a->k != b->k) return "N/k differ"; if (!deq(a->alpha_min, b->alpha_min)) return vf::fmt("tlwe alpha_min %.17g vs %.17g", a->alpha_min, b->alpha_min); if (!deq(a->alpha_max, b->alpha_max)) return vf::fmt("tlwe alpha_max %.17g vs %.17g", a->alpha_max, b->alpha_max); return cmp_lwep(&a->extracted_lweparams, &b->extracted_lweparams); }
inline std::string cmp_tgswp(const TGswParams *a, const TGswParams *b) { if (a->l != b->l || a->Bgbit != b->Bgbit || a->Bg != b->Bg || a->halfBg != b->halfBg || a->maskMod != b->maskMod || a->kpl != b->kpl || a->offset != b->offset) return "gadget fields differ"; for (int i = 0; i < a->l; i++) if (a->h[i] != b->h[i]) return "h[] differs"; return cmp_tlwep(a->tlwe_params, b->tlwe_params); }
inline std::string cmp_lwes(const LweSample *a, const LweSample *b, int n, bool var = true) { if (memcmp(a->a, b->a, n * 4)) return "mask differs"; if (a->b != b->b) return "b differs"; if (var && !deq(a->current_variance, b->current_variance)) return vf::fmt("variance %.17g vs %.17g", a->current_variance, b->current_variance); return ""; }
inline std::string cmp_tlwes(const TLweSample *a, const TLweSample *b, int N, int k, bool var = true) { for (int i = 0; i <= k; i++) if (memcmp(a->a[i].coefsT, b->a[i].coefsT, N * 4)) return vf::fmt("component %d differs", i); if (var && !deq(a->current_variance, b->current_variance)) return vf::fmt("variance %.17g vs %.17g", a->current_variance, b->current_variance); return ""; }
inline std::string cmp_ks(const LweKeySwitchKey *a, const LweKeySwitchKey *b) {
    if (a->n != b->n || a->t != b->t || a->basebit != b->basebit || a->base != b->base) return "key-switch dimensions differ"; std::string e = cmp_lwep(a->out_params, b->out_params); if (!e.empty()) return e;
    int tot = a->n * a->t * a->base; double mx = -1; for (int r = 0; r < tot; r++) if (a->ks0_raw[r].current_variance > mx) mx = a->ks0_raw[r].current_variance;
    for (int r = 0; r < tot; r++) { e = cmp_lwes(&a->ks0_raw[r], &b->ks0_raw[r], a->out_params->n, false); if (!e.empty()) return vf::fmt("key-switch row %d: ", r) + e; if (!deq(b->ks0_raw[r].current_variance, mx)) return vf::fmt("key-switch row %d variance %.17g, common maximum %.17g", r, b->ks0_raw[r].current_variance, mx); }
    for (int i = 0; i < a->n; i++) for (int j = 0; j < a->t; j++) if (b->ks[i][j] != b->ks0_raw + (size_t)(i * a->t + j) * a->base) return "3-level index of the imported key-switching key is inconsistent";
    return ""; }
inline std::string cmp_bk(const LweBootstrappingKey *a, const LweBootstrappingKey *b) {
    std::string e = cmp_lwep(a->in_out_params, b->in_out_params); if (!e.empty()) return e; e = cmp_tgswp(a->bk_params, b->bk_params); if (!e.empty()) return e;
    e = cmp_tlwep(a->accum_params, b->accum_params); if (!e.empty()) return e; e = cmp_lwep(a->extract_params, b->extract_params); if (!e.empty()) return e;
    e = cmp_ks(a->ks, b->ks); if (!e.empty()) return e;
    int n = a->in_out_params->n, kpl = a->bk_params->kpl, N = a->bk_params->tlwe_params->N, k = a->bk_params->tlwe_params->k; double mx = -1;
    for (int i = 0; i < n; i++) for (int p = 0; p < kpl; p++) if (a->bk[i].all_sample[p].current_variance > mx) mx = a->bk[i].all_sample[p].current_variance;
    for (int i = 0; i < n; i++) for (int p = 0; p < kpl; p++) { e = cmp_tlwes(&a->bk[i].all_sample[p], &b->bk[i].all_sample[p], N, k, false); if (!e.empty()) return vf::fmt("bootstrapping row (%d,%d): ", i, p) + e; if (!deq(b->bk[i].all_sample[p].current_variance, mx)) return vf::fmt("bootstrapping row (%d,%d) variance %.17g, common maximum %.17g", i, p, b->bk[i].all_sample[p].current_variance, mx); }
    return ""; }
inline std::string cmp_ps(const TFheGateBootstrappingParameterSet *a, const TFheGateBootstrappingParameterSet *b) { if (a->ks_t != b->ks_t || a->ks_basebit != b->ks_basebit) return "ks_t/ks_basebit differ"; std::string e = cmp_lwep(a->in_out_params, b->in_out_params); if (!e.empty()) return e; return cmp_tgswp(a->tgsw_params, b->tgsw_params); }

// ---------- the type table
struct Type {
    const char *name; bool needs_keysets; bool text_only;
    std::function<void(World &, Out &)> exp;                       // export the world's object of this type
    std::function<void *(World &, In &)> imp;                      // import -> handle (never freed: forked children)
    std::function<std::string(World &, void *)> cmp;               // "" when equal to the world's object
    std::function<void(void *, World &, Out &)> reexp;             // export an imported handle
};
#define TR(file, F1, F2, ...) do { if (o.file) F1(o.F, __VA_ARGS__); else F2(o.os, __VA_ARGS__); } while (0)
#define IM(F1, F2) (i.file ? F1(i.F) : F2(i.is))

inline std::vector<Type> &types() {
    static std::vector<Type> T = {
        {"LweParams", false, true, [](World &w, Out &o) { TR(file, export_lweParams_toFile, export_lweParams_toStream, w.lp); }, [](World &, In &i) -> void * { return IM(new_lweParams_fromFile, new_lweParams_fromStream); },
         [](World &w, void *h) { return cmp_lwep(w.lp, (LweParams *)h); }, [](void *h, World &, Out &o) { TR(file, export_lweParams_toFile, export_lweParams_toStream, (LweParams *)h); }},
        {"LweSample", false, false, [](World &w, Out &o) { TR(file, export_lweSample_toFile, export_lweSample_toStream, w.ls, w.lp); },
         [](World &w, In &i) -> void * { LweSample *s = new_LweSample(w.lp); for (int q = 0; q < w.c.n; q++) s->a[q] = 0x7e7e7e7e; s->b = 0x7e7e7e7e; s->current_variance = -77; if (i.file) import_lweSample_fromFile(i.F, s, w.lp); else import_lweSample_fromStream(i.is, s, w.lp); return s; },
         [](World &w, void *h) { return cmp_lwes(w.ls, (LweSample *)h, w.c.n); }, [](void *h, World &w, Out &o) { TR(file, export_lweSample_toFile, export_lweSample_toStream, (LweSample *)h, w.lp); }},
        {"LweKey", false, false, [](World &w, Out &o) { TR(file, export_lweKey_toFile, export_lweKey_toStream, w.lk); }, [](World &, In &i) -> void * { return IM(new_lweKey_fromFile, new_lweKey_fromStream); },
         [](World &w, void *h) { LweKey *k = (LweKey *)h; std::string e = cmp_lwep(w.lp, k->params); if (!e.empty()) return e; return std::string(memcmp(k->key, w.lk->key, w.c.n * 4) ? "key bits differ" : ""); }, [](void *h, World &, Out &o) { TR(file, export_lweKey_toFile, export_lweKey_toStream, (LweKey *)h); }},
        {"TLweParams", false, true, [](World &w, Out &o) { TR(file, export_tLweParams_toFile, export_tLweParams_toStream, w.tp); }, [](World &, In &i) -> void * { return IM(new_tLweParams_fromFile, new_tLweParams_fromStream); },
         [](World &w, void *h) { return cmp_tlwep(w.tp, (TLweParams *)h); }, [](void *h, World &, Out &o) { TR(file, export_tLweParams_toFile, export_tLweParams_toStream, (TLweParams *)h); }},
        {"TLweSample", false, false, [](World &w, Out &o) { TR(file, export_tlweSample_toFile, export_tlweSample_toStream, w.ts, w.tp); },
         [](World &w, In &i) -> void * { TLweSample *s = new_TLweSample(w.tp); for (int q = 0; q <= w.c.k; q++) for (int j = 0; j < w.c.N; j++) s->a[q].coefsT[j] = 0x7e7e7e7e; s->current_variance = -77; if (i.file) import_tlweSample_fromFile(i.F, s, w.tp); else import_tlweSample_fromStream(i.is, s, w.tp); return s; },
         [](World &w, void *h) { return cmp_tlwes(w.ts, (TLweSample *)h, w.c.N, w.c.k); }, [](void *h, World &w, Out &o) { TR(file, export_tlweSample_toFile, export_tlweSample_toStream, (TLweSample *)h, w.tp); }},
        {"TLweKey", false, false, [](World &w, Out &o) { TR(file, export_tlweKey_toFile, export_tlweKey_toStream, w.tk); }, [](World &, In &i) -> void * { return IM(new_tlweKey_fromFile, new_tlweKey_fromStream); },
         [](World &w, void *h) { TLweKey *k = (TLweKey *)h; std::string e = cmp_tlwep(w.tp, k->params); if (!e.empty()) return e; for (int q = 0; q < w.c.k; q++) if (memcmp(k->key[q].coefs, w.tk->key[q].coefs, w.c.N * 4)) return std::string("key polynomial differs"); return std::string(); }, [](void *h, World &, Out &o) { TR(file, export_tlweKey_toFile, export_tlweKey_toStream, (TLweKey *)h); }},
        {"TGswParams", false, true, [](World &w, Out &o) { TR(file, export_tGswParams_toFile, export_tGswParams_toStream, w.gp); }, [](World &, In &i) -> void * { return IM(new_tGswParams_fromFile, new_tGswParams_fromStream); },
         [](World &w, void *h) { return cmp_tgswp(w.gp, (TGswParams *)h); }, [](void *h, World &, Out &o) { TR(file, export_tGswParams_toFile, export_tGswParams_toStream, (TGswParams *)h); }},
        {"TGswSample", false, false, [](World &w, Out &o) { TR(file, export_tgswSample_toFile, export_tgswSample_toStream, w.gs, w.gp); },
         [](World &w, In &i) -> void * { TGswSample *s = new_TGswSample(w.gp); for (int p = 0; p < w.gp->kpl; p++) { for (int q = 0; q <= w.c.k; q++) for (int j = 0; j < w.c.N; j++) s->all_sample[p].a[q].coefsT[j] = 0x7e7e7e7e; s->all_sample[p].current_variance = -77; } if (i.file) import_tgswSample_fromFile(i.F, s, w.gp); else import_tgswSample_fromStream(i.is, s, w.gp); return s; },
         [](World &w, void *h) { TGswSample *s = (TGswSample *)h; for (int p = 0; p < w.gp->kpl; p++) { std::string e = cmp_tlwes(&w.gs->all_sample[p], &s->all_sample[p], w.c.N, w.c.k); if (!e.empty()) return vf::fmt("row %d: ", p) + e; } return std::string(); }, [](void *h, World &w, Out &o) { TR(file, export_tgswSample_toFile, export_tgswSample_toStream, (TGswSample *)h, w.gp); }},
        {"TGswKey", false, false, [](World &w, Out &o) { TR(file, export_tgswKey_toFile, export_tgswKey_toStream, w.gk); }, [](World &, In &i) -> void * { return IM(new_tgswKey_fromFile, new_tgswKey_fromStream); },
         [](World &w, void *h) { TGswKey *k = (TGswKey *)h; std::string e = cmp_tgswp(w.gp, k->params); if (!e.empty()) return e; if (k->key != k->tlwe_key.key || k->tlwe_params != k->params->tlwe_params) return std::string("internal aliases of the imported TGSW key are inconsistent"); for (int q = 0; q < w.c.k; q++) if (memcmp(k->key[q].coefs, w.gk->key[q].coefs, w.c.N * 4)) return std::string("key polynomial differs"); return std::string(); }, [](void *h, World &, Out &o) { TR(file, export_tgswKey_toFile, export_tgswKey_toStream, (TGswKey *)h); }},
        {"LweKeySwitchKey", false, false, [](World &w, Out &o) { TR(file, export_lweKeySwitchKey_toFile, export_lweKeySwitchKey_toStream, w.ks); }, [](World &, In &i) -> void * { return IM(new_lweKeySwitchKey_fromFile, new_lweKeySwitchKey_fromStream); },
         [](World &w, void *h) { return cmp_ks(w.ks, (LweKeySwitchKey *)h); }, [](void *h, World &, Out &o) { TR(file, export_lweKeySwitchKey_toFile, export_lweKeySwitchKey_toStream, (LweKeySwitchKey *)h); }},
        {"LweBootstrappingKey", false, false, [](World &w, Out &o) { TR(file, export_lweBootstrappingKey_toFile, export_lweBootstrappingKey_toStream, w.bk); }, [](World &, In &i) -> void * { return IM(new_lweBootstrappingKey_fromFile, new_lweBootstrappingKey_fromStream); },
         [](World &w, void *h) { return cmp_bk(w.bk, (LweBootstrappingKey *)h); }, [](void *h, World &, Out &o) { TR(file, export_lweBootstrappingKey_toFile, export_lweBootstrappingKey_toStream, (LweBootstrappingKey *)h); }},
        {"ParameterSet", false, true, [](World &w, Out &o) { TR(file, export_tfheGateBootstrappingParameterSet_toFile, export_tfheGateBootstrappingParameterSet_toStream, w.ps); }, [](World &, In &i) -> void * { return IM(new_tfheGateBootstrappingParameterSet_fromFile, new_tfheGateBootstrappingParameterSet_fromStream); },
         [](World &w, void *h) { return cmp_ps(w.ps, (TFheGateBootstrappingParameterSet *)h); }, [](void *h, World &, Out &o) { TR(file, export_tfheGateBootstrappingParameterSet_toFile, export_tfheGateBootstrappingParameterSet_toStream, (TFheGateBootstrappingParameterSet *)h); }},
        {"CloudKeySet", true, false, [](World &w, Out &o) { TR(file, export_tfheGateBootstrappingCloudKeySet_toFile, export_tfheGateBootstrappingCloudKeySet_toStream, &w.sks->cloud); }, [](World &, In &i) -> void * { return IM(new_tfheGateBootstrappingCloudKeySet_fromFile, new_tfheGateBootstrappingCloudKeySet_fromStream); },
         [](World &w, void *h) { TFheGateBootstrappingCloudKeySet *c = (TFheGateBootstrappingCloudKeySet *)h; std::string e = cmp_ps(w.ps, c->params); if (!e.empty()) return e; if (!c->bkFFT) return std::string("no FFT image"); return cmp_bk(w.sk_bk, c->bk); }, [](void *h, World &, Out &o) { TR(file, export_tfheGateBootstrappingCloudKeySet_toFile, export_tfheGateBootstrappingCloudKeySet_toStream, (TFheGateBootstrappingCloudKeySet *)h); }},
        {"SecretKeySet", true, false, [](World &w, Out &o) { TR(file, export_tfheGateBootstrappingSecretKeySet_toFile, export_tfheGateBootstrappingSecretKeySet_toStream, w.sks); }, [](World &, In &i) -> void * { return IM(new_tfheGateBootstrappingSecretKeySet_fromFile, new_tfheGateBootstrappingSecretKeySet_fromStream); },
         [](World &w, void *h) { TFheGateBootstrappingSecretKeySet *s = (TFheGateBootstrappingSecretKeySet *)h; std::string e = cmp_ps(w.ps, s->params); if (!e.empty()) return e; e = cmp_bk(w.sk_bk, s->cloud.bk); if (!e.empty()) return e; if (memcmp(s->lwe_key->key, w.sk_lwe->key, w.c.n * 4)) return std::string("LWE secret key differs"); for (int q = 0; q < w.c.k; q++) if (memcmp(s->tgsw_key->key[q].coefs, w.sk_tgsw->key[q].coefs, w.c.N * 4)) return std::string("ring secret key differs"); if (s->cloud.params != s->params) return std::string("cloud part does not share the parameter set"); return std::string(); },
         [](void *h, World &, Out &o) { TR(file, export_tfheGateBootstrappingSecretKeySet_toFile, export_tfheGateBootstrappingSecretKeySet_toStream, (TFheGateBootstrappingSecretKeySet *)h); }},
        {"GateCiphertext", false, false, [](World &w, Out &o) { TR(file, export_gate_bootstrapping_ciphertext_toFile, export_gate_bootstrapping_ciphertext_toStream, w.gc, w.ps); },
         [](World &w, In &i) -> void * { LweSample *s = new_gate_bootstrapping_ciphertext(w.ps); for (int q = 0; q < w.c.n; q++) s->a[q] = 0x7e7e7e7e; s->b = 0x7e7e7e7e; s->current_variance = -77; if (i.file) import_gate_bootstrapping_ciphertext_fromFile(i.F, s, w.ps); else import_gate_bootstrapping_ciphertext_fromStream(i.is, s, w.ps); return s; },
         [](World &w, void *h) { return cmp_lwes(w.gc, (LweSample *)h, w.c.n); }, [](void *h, World &w, Out &o) { TR(file, export_gate_bootstrapping_ciphertext_toFile, export_gate_bootstrapping_ciphertext_toStream, (LweSample *)h, w.ps); }},
    };
    return T;
}
} // namespace io
