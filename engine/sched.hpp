// sched.hpp — controlled scheduler + stateless preemption-bounded explorer over interposed synchronisation points.
//
// Harness threads are real pthreads; exactly one holds the token and runs.  Scheduling points are calls the library makes
// through its PLT which the harness executable defines (FFT kernels, FFTW planner, pthread_mutex_lock/unlock, selected API
// entry points): see the interposers at the bottom.  A thread that finds a mutex held by another managed thread is *disabled*
// until the owner unlocks ("no enabled thread" = deadlock).  Thread exit is a point too: the library's thread_local
// destructors run while the thread still holds the token (a harness thread_local constructed first is destroyed last).
//
// One execution = the thread bodies run to completion under one schedule (a list of choices, one per choice point).  The
// explorer replays a prefix and takes choice 0 afterwards (canonical order: running thread first if enabled, then ascending
// ids); alternatives at every later point are explored while the number of preemptions stays within the bound.
#pragma once
#include <cstdint>
#include <cstdio>
#include <cstring>
#include <vector>
#include <string>
#include <functional>
#include <semaphore.h>
#include <pthread.h>
#include <dlfcn.h>
#include <set>
#include <map>

namespace sched {

enum { PLANNER = 1 };   // point class: FFTW planner API (documented as not thread-safe)

struct Point { int running; bool running_enabled; int n_enabled; int chosen; std::string label; std::vector<int> order; };
struct Trace { std::vector<Point> points; bool deadlock = false; std::string monitor; bool diverged = false; std::vector<std::string> events; };

struct Th { pthread_t tid; sem_t go; int state = 0; /*0 new 1 enabled 2 blocked 3 finished*/ const void *waiting = nullptr; const char *at = ""; int at_class = 0; std::set<const void *> held; std::function<void()> body; };

struct Core {
    bool active = false; int n = 0; std::vector<Th *> th; int running = -1;
    std::vector<int> prefix; size_t pos = 0; Trace tr;
    bool scripted = false; std::vector<int> script; size_t spos = 0; std::set<std::string> relevant; /* directed replay of a model trace: one thread id per model step */ std::map<const void *, int> owner; sem_t done; bool record_events = false; bool libm_points = false;
};
inline Core &C() { static Core c; return c; }
inline thread_local int t_id = -1;

inline void monitor_check() { // two threads positioned at / inside planner-class calls without a common lock
    Core &c = C(); if (!c.tr.monitor.empty()) return;
    for (int a = 0; a < c.n; a++) for (int b = a + 1; b < c.n; b++) { Th *x = c.th[a], *y = c.th[b];
        if (x->state == 3 || y->state == 3 || x->state == 0 || y->state == 0) continue;
        if (!(x->at_class & PLANNER) || !(y->at_class & PLANNER)) continue;
        bool common = false; for (auto m : x->held) if (y->held.count(m)) common = true;
        if (!common) c.tr.monitor = std::string("two threads enabled at FFTW planner calls without a common lock: T") + std::to_string(a) + " at " + x->at + ", T" + std::to_string(b) + " at " + y->at; }
}

// pick the next thread at a choice point; `me_enabled`: the caller may continue
inline int choose(const char *label, bool me_enabled) {
    Core &c = C(); int me = t_id;
    std::vector<int> order; if (me_enabled && me >= 0) order.push_back(me);
    for (int i = 0; i < c.n; i++) if (i != me && c.th[i]->state == 1) order.push_back(i);
    if (order.empty()) return -1;
    monitor_check();
    if (c.scripted) { // a model step = the chosen thread performs its pending relevant event and runs up to its next relevant point
        bool at_relevant = !me_enabled || me < 0 || c.relevant.count(label);
        if (!at_relevant) return me;                       // between two model events: keep running
        if (c.spos >= c.script.size()) { c.tr.diverged = true; return order[0]; }
        int want = c.script[c.spos++]; bool ok = false; for (int o : order) if (o == want) ok = true;
        if (!ok) { c.tr.diverged = true; return order[0]; }
        Point p; p.running = me; p.running_enabled = me_enabled; p.n_enabled = (int)order.size(); p.chosen = want; p.label = label; p.order = order; c.tr.points.push_back(p);
        return want;
    }
    if (order.size() == 1) return order[0];
    int ch = 0;
    if (c.pos < c.prefix.size()) { ch = c.prefix[c.pos]; if (ch < 0 || ch >= (int)order.size()) { c.tr.diverged = true; ch = 0; } }
    c.pos++;
    Point p; p.running = me; p.running_enabled = me_enabled; p.n_enabled = (int)order.size(); p.chosen = ch; p.label = label; p.order = order; c.tr.points.push_back(p);
    return order[ch];
}
inline void handoff(int next) { Core &c = C(); int me = t_id; if (next == me) return; c.running = next; sem_post(&c.th[next]->go); if (me >= 0 && c.th[me]->state != 3) { sem_wait(&c.th[me]->go); c.running = me; } }

inline bool managed() { return C().active && t_id >= 0; }
// a scheduling point
inline void point(const char *label, int cls = 0) {
    if (!managed()) return; Core &c = C(); Th *me = c.th[t_id]; me->at = label; me->at_class = cls;
    if (c.record_events) c.tr.events.push_back("T" + std::to_string(t_id) + ":" + label);
    int nx = choose(label, true); if (nx >= 0 && nx != t_id) handoff(nx);
}
inline void leave(const char *label) { if (!managed()) return; Th *me = C().th[t_id]; me->at = label; me->at_class = 0; }

typedef int (*mfn)(pthread_mutex_t *);
inline mfn real_lock() { static mfn f = (mfn)dlsym(RTLD_NEXT, "pthread_mutex_lock"); return f; }
inline mfn real_unlock() { static mfn f = (mfn)dlsym(RTLD_NEXT, "pthread_mutex_unlock"); return f; }

inline int lock(pthread_mutex_t *m) {
    if (!managed()) return real_lock()(m);
    Core &c = C(); Th *me = c.th[t_id];
    point("mutex_lock");
    while (c.owner.count(m) && c.owner[m] != t_id) { // held by another managed thread: disabled until it unlocks
        me->state = 2; me->waiting = m; int nx = choose("blocked_on_mutex", false);
        if (nx < 0) { c.tr.deadlock = true; sem_post(&c.done); sem_wait(&me->go); /* never resumed */ }
        handoff(nx);
    }
    c.owner[m] = t_id; me->held.insert(m);
    if (c.record_events) c.tr.events.push_back("T" + std::to_string(t_id) + ":acquire");
    return real_lock()(m);
}
inline int unlock(pthread_mutex_t *m) {
    if (!managed()) return real_unlock()(m);
    Core &c = C(); Th *me = c.th[t_id]; int r = real_unlock()(m);
    c.owner.erase(m); me->held.erase(m);
    for (int i = 0; i < c.n; i++) if (c.th[i]->state == 2 && c.th[i]->waiting == m) { c.th[i]->state = 1; c.th[i]->waiting = nullptr; }
    if (c.record_events) c.tr.events.push_back("T" + std::to_string(t_id) + ":release");
    point("mutex_unlock");
    return r;
}

// harness-level events (a thread waits until another one has reached a given place): modelled as blocking, like a mutex
inline void set_flag(volatile int *f) { __atomic_store_n(f, 1, __ATOMIC_SEQ_CST); if (!managed()) return; Core &c = C(); for (int i = 0; i < c.n; i++) if (c.th[i]->state == 2 && c.th[i]->waiting == (const void *)f) { c.th[i]->state = 1; c.th[i]->waiting = nullptr; } point("set_flag"); }
inline void wait_flag(volatile int *f) {
    if (!managed()) { while (!__atomic_load_n(f, __ATOMIC_SEQ_CST)) sched_yield(); return; }
    Core &c = C(); Th *me = c.th[t_id]; point("wait_flag");
    while (!__atomic_load_n(f, __ATOMIC_SEQ_CST)) { me->state = 2; me->waiting = (const void *)f; int nx = choose("blocked_on_flag", false); if (nx < 0) { c.tr.deadlock = true; sem_post(&c.done); sem_wait(&me->go); } handoff(nx); }
}

struct Finisher { ~Finisher() { // runs after every library thread_local destructor of this thread
    if (!managed()) return; Core &c = C(); Th *me = c.th[t_id];
    if (c.record_events) c.tr.events.push_back("T" + std::to_string(t_id) + ":exit");
    me->state = 3; me->at = "finished"; me->at_class = 0;
    int nx = choose("thread_exit", false);
    if (nx >= 0) { c.running = nx; sem_post(&c.th[nx]->go); }
    else { bool all = true; for (int i = 0; i < c.n; i++) if (c.th[i]->state != 3) all = false; if (!all) c.tr.deadlock = true; sem_post(&c.done); }
} };
inline thread_local Finisher t_fin;

inline void *trampoline(void *arg) {
    long id = (long)arg; t_id = (int)id; (void)&t_fin; Finisher *keep = &t_fin; (void)keep; // construct the finisher before any library thread_local
    Core &c = C(); sem_wait(&c.th[id]->go); c.running = (int)id;
    if (c.record_events) c.tr.events.push_back("T" + std::to_string(id) + ":start");
    c.th[id]->body();
    point("body_end");           // the destructors of the library's thread_local objects run after this point, still under the scheduler
    c.th[id]->at = "thread_local destructors";
    return nullptr;
}

// run the bodies under the schedule `prefix`; returns the trace
inline Trace run(const std::vector<std::function<void()>> &bodies, const std::vector<int> &prefix, bool record_events = false, const std::vector<int> *script = nullptr, const std::set<std::string> *relevant = nullptr) {
    Core &c = C(); c.n = (int)bodies.size(); c.prefix = prefix; c.pos = 0; c.scripted = script != nullptr; c.spos = 0; if (script) { c.script = *script; c.relevant = *relevant; } c.tr = Trace(); c.owner.clear(); c.record_events = record_events; sem_init(&c.done, 0, 0);
    for (auto t : c.th) delete t; c.th.clear();
    for (int i = 0; i < c.n; i++) { Th *t = new Th; sem_init(&t->go, 0, 0); t->state = 1; t->body = bodies[i]; t->at = "start"; c.th.push_back(t); }
    c.active = true; t_id = -1;
    for (long i = 0; i < c.n; i++) pthread_create(&c.th[i]->tid, nullptr, trampoline, (void *)i);
    int first = choose("start", false); c.running = first; sem_post(&c.th[first]->go);
    sem_wait(&c.done);
    if (!c.tr.deadlock) for (int i = 0; i < c.n; i++) pthread_join(c.th[i]->tid, nullptr);
    c.active = false;
    return c.tr;
}

inline int preemptions(const Trace &t, size_t upto) { int p = 0; for (size_t i = 0; i < upto && i < t.points.size(); i++) if (t.points[i].running_enabled && t.points[i].chosen != 0) p++; return p; }

} // namespace sched

// ---------------------------------------------------------------------------------------------------------------------------
// interposers (defined in the harness executable; the libraries reach them through their PLT)
#ifdef SCHED_INTERPOSE
extern "C" {
int pthread_mutex_lock(pthread_mutex_t *m) { return sched::lock(m); }
int pthread_mutex_unlock(pthread_mutex_t *m) { return sched::unlock(m); }
#define WRAP_VOID(name, cls, sig, args)                                                                          \
    void name sig { static void(*real) sig = (void(*) sig)dlsym(RTLD_NEXT, #name); sched::point(#name ":pre", cls); real args; sched::leave(#name ":inside-done"); sched::point(#name ":post", 0); }
WRAP_VOID(fft, 0, (const void *t, double *d), (t, d))
WRAP_VOID(ifft, 0, (const void *t, double *d), (t, d))
WRAP_VOID(fft_transform, 0, (const void *t, double *re, double *im), (t, re, im))
WRAP_VOID(fft_transform_reverse, 0, (const void *t, double *re, double *im), (t, re, im))
WRAP_VOID(fftw_execute, 0, (const void *p), (p))
WRAP_VOID(fftw_destroy_plan, sched::PLANNER, (void *p), (p))
void *fftw_plan_dft_r2c_1d(int n, double *in, void *out, unsigned flags) { static void *(*real)(int, double *, void *, unsigned) = (void *(*)(int, double *, void *, unsigned))dlsym(RTLD_NEXT, "fftw_plan_dft_r2c_1d"); sched::point("fftw_plan_dft_r2c_1d:pre", sched::PLANNER); void *r = real(n, in, out, flags); sched::leave("planned"); sched::point("fftw_plan_dft_r2c_1d:post", 0); return r; }
void *fftw_plan_dft_c2r_1d(int n, void *in, double *out, unsigned flags) { static void *(*real)(int, void *, double *, unsigned) = (void *(*)(int, void *, double *, unsigned))dlsym(RTLD_NEXT, "fftw_plan_dft_c2r_1d"); sched::point("fftw_plan_dft_c2r_1d:pre", sched::PLANNER); void *r = real(n, in, out, flags); sched::leave("planned"); sched::point("fftw_plan_dft_c2r_1d:post", 0); return r; }
// coarse points inside long initialisation loops (trigonometric tables are filled with thousands of libm calls): every 256th call of a thread
double cos(double x) noexcept { static double (*real)(double) = (double (*)(double))dlsym(RTLD_NEXT, "cos"); static thread_local unsigned cnt = 0; if (sched::managed() && sched::C().libm_points && (++cnt & 255) == 0) sched::point("libm", 0); return real(x); }
double sin(double x) noexcept { static double (*real)(double) = (double (*)(double))dlsym(RTLD_NEXT, "sin"); static thread_local unsigned cnt = 0; if (sched::managed() && sched::C().libm_points && (++cnt & 255) == 0) sched::point("libm", 0); return real(x); }
// API entry points that touch per-thread scratch or temporarily modify their input
struct TorusPolynomial; struct IntPolynomial; struct LagrangeHalfCPolynomial; struct TGswParams;
WRAP_VOID(tGswTorus32PolynomialDecompH, 0, (IntPolynomial *r, const TorusPolynomial *s, const TGswParams *p), (r, s, p))
WRAP_VOID(Karatsuba_aux, 0, (int32_t *R, const int32_t *A, const int32_t *B, const int32_t size, const char *buf), (R, A, B, size, buf))
}
#endif
