// exactkey.hpp — parameter sets and keys built by the harness with exact integer arithmetic (optionally with known, harness-drawn noise).
// A library key generated with alpha = 0 is not noiseless (its rows carry the +-1 unit error of the FFT product used by tLweSymEncryptZero);
// the sharp oracles of C04/C09 need rows whose phase is known exactly.
#pragma once
#include <tfhe.h>
#include <cmath>
#include <vector>
#include "vf.hpp"
#include "ref.hpp"

namespace ek {

struct Set {
    int n, N, k, l, Bgbit, t, bb; uint64_t seed;
    LweParams *lp; TLweParams *tp; TGswParams *gp;
    LweKey *s;        // LWE key (n)
    TGswKey *ring;    // ring key (k polynomials)
    LweKey *ext;      // extracted key (kN)
    LweBootstrappingKey *bk; LweBootstrappingKeyFFT *bkFFT;
    std::vector<std::vector<std::vector<ref::T32>>> bk_err; // [i][row][coef] phase error of every TGSW row (0 when noiseless)
};

inline double gauss(uint64_t &x) { double u1 = ((vf::splitmix(x) >> 11) + 1.0) / 9007199254740993.0, u2 = (vf::splitmix(x) >> 11) / 9007199254740992.0; return std::sqrt(-2 * std::log(u1)) * std::cos(6.283185307179586 * u2); }

// r += key * mask   (key binary polynomial, exact negacyclic)
inline void addmul_key(uint32_t *r, const int32_t *key, const ref::T32 *mask, int N) {
    for (int i = 0; i < N; i++) { if (!key[i]) continue; for (int j = 0; j < N; j++) { int q = i + j; if (q < N) r[q] += (uint32_t)mask[j]; else r[q - N] -= (uint32_t)mask[j]; } }
}
inline void ring_phase(ref::T32 *ph, const TLweSample *c, const IntPolynomial *key, int N, int k) {
    std::vector<uint32_t> acc(N, 0); for (int i = 0; i < k; i++) addmul_key(acc.data(), key[i].coefs, c->a[i].coefsT, N);
    for (int j = 0; j < N; j++) ph[j] = (ref::T32)((uint32_t)c->b->coefsT[j] - acc[j]);
}
// exact TLWE encryption of `msg` (torus polynomial, may be null = 0) with error polynomial e (may be null)
inline void tlwe_exact(TLweSample *c, const IntPolynomial *key, int N, int k, uint64_t &x, const ref::T32 *msg, const ref::T32 *e) {
    std::vector<uint32_t> acc(N, 0);
    for (int i = 0; i < k; i++) { for (int j = 0; j < N; j++) c->a[i].coefsT[j] = (ref::T32)vf::splitmix(x); addmul_key(acc.data(), key[i].coefs, c->a[i].coefsT, N); }
    for (int j = 0; j < N; j++) c->b->coefsT[j] = (ref::T32)(acc[j] + (msg ? (uint32_t)msg[j] : 0u) + (e ? (uint32_t)e[j] : 0u));
    c->current_variance = 0;
}
// exact TGSW encryption of the integer polynomial m (null: constant mconst) ; row errors drawn with stdev sigma (units of the torus) when sigma > 0
inline void tgsw_exact(TGswSample *g, const TGswParams *gp, const IntPolynomial *key, uint64_t &x, const int32_t *m, int mconst, double sigma, std::vector<std::vector<ref::T32>> *errs) {
    int N = gp->tlwe_params->N, k = gp->tlwe_params->k, l = gp->l; std::vector<ref::T32> e(N, 0);
    if (errs) errs->assign(gp->kpl, std::vector<ref::T32>(N, 0));
    for (int p = 0; p < gp->kpl; p++) {
        if (sigma > 0) for (int j = 0; j < N; j++) e[j] = (ref::T32)(int64_t)std::llround(gauss(x) * sigma * 4294967296.0);
        tlwe_exact(&g->all_sample[p], key, N, k, x, nullptr, sigma > 0 ? e.data() : nullptr);
        if (errs && sigma > 0) (*errs)[p] = e;
        int bloc = p / l, i = p % l; ref::T32 *target = g->all_sample[p].a[bloc].coefsT; // message * h_i on the block diagonal
        if (m) for (int j = 0; j < N; j++) target[j] = (ref::T32)((uint32_t)target[j] + (uint32_t)m[j] * (uint32_t)gp->h[i]);
        else target[0] = (ref::T32)((uint32_t)target[0] + (uint32_t)mconst * (uint32_t)gp->h[i]);
    }
}

inline Set *make(int n, int k, int l, int Bgbit, int t, int bb, uint64_t seed, double sigma_bk = 0, double sigma_ks = 0, int keykind = 0 /*0 seeded bits, 1 all ones*/) {
    Set *S = new Set; S->n = n; S->N = 1024; S->k = k; S->l = l; S->Bgbit = Bgbit; S->t = t; S->bb = bb; S->seed = seed; const int N = 1024;
    uint64_t x = seed * 0x51ED27 + n * 131 + k * 17 + l * 5 + Bgbit;
    S->lp = new_LweParams(n, sigma_ks, 0.25); S->tp = new_TLweParams(N, k, sigma_bk, 0.25); S->gp = new_TGswParams(l, Bgbit, S->tp);
    S->s = new_LweKey(S->lp); for (int i = 0; i < n; i++) S->s->key[i] = keykind == 1 ? 1 : (int)(vf::splitmix(x) & 1);
    S->ring = new_TGswKey(S->gp); for (int i = 0; i < k; i++) for (int j = 0; j < N; j++) S->ring->key[i].coefs[j] = (int)(vf::splitmix(x) & 1);
    S->ext = new_LweKey(&S->tp->extracted_lweparams); for (int i = 0; i < k; i++) for (int j = 0; j < N; j++) S->ext->key[i * N + j] = S->ring->key[i].coefs[j];
    S->bk = new_LweBootstrappingKey(t, bb, S->lp, S->gp);
    S->bk_err.resize(n);
    for (int i = 0; i < n; i++) tgsw_exact(&S->bk->bk[i], S->gp, S->ring->key, x, nullptr, S->s->key[i], sigma_bk, &S->bk_err[i]);
    // key-switching key ext -> s : row (i,j,h) encrypts h * ext_i / base^(j+1)
    int base = 1 << bb;
    for (int i = 0; i < k * N; i++) for (int j = 0; j < t; j++) for (int h = 0; h < base; h++) {
        LweSample *r = &S->bk->ks->ks[i][j][h]; uint32_t b = (uint32_t)(S->ext->key[i] * h) << (32 - (j + 1) * bb);
        if (h && sigma_ks > 0) b += (uint32_t)(int32_t)std::llround(gauss(x) * sigma_ks * 4294967296.0);
        for (int p = 0; p < n; p++) { r->a[p] = h ? (ref::T32)vf::splitmix(x) : 0; b += (uint32_t)r->a[p] * (uint32_t)S->s->key[p]; }
        r->b = (ref::T32)b; r->current_variance = sigma_ks * sigma_ks;
    }
    S->bkFFT = new_LweBootstrappingKeyFFT(S->bk);
    return S;
}
inline void destroy(Set *S) { delete_LweBootstrappingKeyFFT(S->bkFFT); delete_LweBootstrappingKey(S->bk); delete_LweKey(S->ext); delete_TGswKey(S->ring); delete_LweKey(S->s); delete_TGswParams(S->gp); delete_TLweParams(S->tp); delete_LweParams(S->lp); delete S; }

// worst-case FFT rounding of one external product, per output coefficient (units), see DESIGN C09/C10
inline int64_t cmux_fft_budget(const Set *S) { int64_t Bgh = (int64_t)1 << (S->Bgbit - 1); int64_t E = 2 * std::max<int64_t>(1, Bgh / 512); return E; }
// phase-level budget of a blind rotation with nz non-zero exponents: FFT rounding amplified by the binary ring key + gadget truncation
inline int64_t blind_rotate_budget(const Set *S, int nz) {
    int64_t amp = 1 + (int64_t)S->k * S->N; int64_t fft = cmux_fft_budget(S) * amp;
    int rem = 32 - S->l * S->Bgbit; int64_t trunc = rem > 0 ? (((int64_t)1 << rem) * amp) : 0;
    return (int64_t)nz * (fft + trunc) + 4;
}
} // namespace ek
