// guardalloc.cpp — guard-page allocator + allocation accounting, linked into harness executables.
// Defines malloc/free/calloc/realloc/posix_memalign/aligned_alloc/memalign (operator new/delete of libstdc++ go through malloc).
// Modes (env VF_GUARD): "after"  every block ends flush against a PROT_NONE page (overflow/over-read -> SIGSEGV)
//                       "before" every block starts right after a PROT_NONE page (underflow)
//                       "off"/unset: thin pass-through to glibc with accounting and fill pattern only
// VF_FILL=<byte>: fresh memory is filled with that byte (A/B differential for uninitialised reads).
// Freed guarded blocks are unmapped: use-after-free is a SIGSEGV as well.
// vm.max_map_count limits the number of guarded blocks; above VF_GUARD_MAX live guarded blocks (default 24000) or for
// blocks larger than VF_GUARD_BIG bytes (default 8 MiB) the request is served by glibc and counted as unguarded.
#include <cstdint>
#include <cstddef>
#include <cstdlib>
#include <cstring>
#include <cstdio>
#include <cerrno>
#include <unistd.h>
#include <sys/mman.h>
#include <signal.h>
#include <atomic>

extern "C" {
void *__libc_malloc(size_t);
void __libc_free(void *);
void *__libc_calloc(size_t, size_t);
void *__libc_realloc(void *, size_t);
void *__libc_memalign(size_t, size_t);
size_t malloc_usable_size(void *);
}

namespace {
enum Mode { OFF = 0, AFTER = 1, BEFORE = 2 };
struct Ent { uintptr_t user; uintptr_t base; size_t maplen; size_t size; long seq; };
const size_t TABSZ = 1u << 17; // open addressing, power of two
Ent tab[TABSZ];
std::atomic_flag lk = ATOMIC_FLAG_INIT;
int mode = -1; int fillbyte = -1; size_t guard_max = 24000, guard_big = 8u << 20;
size_t PAGE = 4096;
const uintptr_t TOMB = 1;

extern "C" int vf_describe_fault(uintptr_t addr, char *out, size_t outlen);
void on_segv(int sig, siginfo_t *si, void *) {
    char buf[256]; vf_describe_fault((uintptr_t)si->si_addr, buf, sizeof buf);
    size_t n = strlen(buf); buf[n] = '\n'; ssize_t w = write(2, buf, n + 1); (void)w;
    raise(sig); // SA_RESETHAND: default action now
}
void lock() { while (lk.test_and_set(std::memory_order_acquire)) { } }
void unlock() { lk.clear(std::memory_order_release); }

void init_mode() {
    const char *m = getenv("VF_GUARD");
    mode = OFF;
    if (m) { if (!strcmp(m, "after")) mode = AFTER; else if (!strcmp(m, "before")) mode = BEFORE; }
    const char *f = getenv("VF_FILL"); if (f) fillbyte = (int)strtol(f, nullptr, 0) & 0xff;
    const char *g = getenv("VF_GUARD_MAX"); if (g) guard_max = strtoul(g, nullptr, 0);
    const char *b = getenv("VF_GUARD_BIG"); if (b) guard_big = strtoul(b, nullptr, 0);
    PAGE = (size_t)sysconf(_SC_PAGESIZE);
    if (mode != OFF) {
        struct sigaction sa; memset(&sa, 0, sizeof sa); sa.sa_sigaction = on_segv; sa.sa_flags = SA_SIGINFO | SA_RESETHAND | SA_NODEFER;
        sigaction(SIGSEGV, &sa, nullptr); sigaction(SIGBUS, &sa, nullptr);
    }
}
inline size_t hashp(uintptr_t p) { return (size_t)((p >> 2) * 0x9E3779B97F4A7C15ULL >> 40) & (TABSZ - 1); }
} // namespace

extern "C" {
// accounting, readable by harnesses
volatile long vf_live_blocks = 0, vf_live_bytes = 0, vf_total_allocs = 0, vf_guarded_live = 0, vf_unguarded_allocs = 0, vf_guarded_allocs = 0, vf_peak_guarded = 0;
int vf_guard_mode() { if (mode < 0) init_mode(); return mode; }
// is p inside a live guarded block? returns its size (0 = unknown)
size_t vf_block_size(const void *p) {
    lock(); size_t r = 0; uintptr_t u = (uintptr_t)p; size_t h = hashp(u);
    for (size_t i = 0; i < TABSZ; i++) { Ent &e = tab[(h + i) & (TABSZ - 1)]; if (e.user == 0) break; if (e.user == u) { r = e.size; break; } }
    unlock(); return r;
}
// write-protect (ro = 1) or re-open (ro = 0) live guarded blocks: the one whose user pointer is p, or every block allocated while the allocation
// counter was in [from, to).  A harness freezes the objects a call must not write (keys, inputs): even a transient write-and-restore faults.
static int protect_ent(const Ent &e, int ro) {
    size_t body = e.maplen - PAGE; uintptr_t start = mode == AFTER ? e.base : e.base + PAGE;
    return mprotect((void *)start, body, ro ? PROT_READ : (PROT_READ | PROT_WRITE)) == 0;
}
int vf_protect(const void *p, int ro) {
    if (mode != AFTER && mode != BEFORE) return 0;
    lock(); int r = 0; uintptr_t u = (uintptr_t)p; size_t h = hashp(u);
    for (size_t i = 0; i < TABSZ; i++) { Ent &e = tab[(h + i) & (TABSZ - 1)]; if (e.user == 0) break; if (e.user == u) { r = protect_ent(e, ro); break; } }
    unlock(); return r;
}
long vf_alloc_seq() { return vf_total_allocs; }
int vf_protect_epoch(long from, long to, int ro) {
    if (mode != AFTER && mode != BEFORE) return 0;
    lock(); int n = 0; for (size_t i = 0; i < TABSZ; i++) { Ent &e = tab[i]; if (e.user <= TOMB) continue; if (e.seq >= from && e.seq < to) n += protect_ent(e, ro); } unlock(); return n;
}
// describe the guarded block closest to a faulting address (for the SIGSEGV report); async-signal-unsafe but we are dying anyway
int vf_describe_fault(uintptr_t addr, char *out, size_t outlen) {
    for (size_t i = 0; i < TABSZ; i++) { Ent &e = tab[i]; if (e.user <= TOMB) continue;
        if (addr >= e.base && addr < e.base + e.maplen) {
            long off = (long)addr - (long)e.user;
            if (off >= 0 && off < (long)e.size) snprintf(out, outlen, "VF-GUARD fault at %p: write into a frozen (read-only) %zu-byte block at offset %ld", (void *)addr, e.size, off); else snprintf(out, outlen, "VF-GUARD fault at %p: %ld bytes %s a %zu-byte block", (void *)addr, off >= 0 ? off - (long)e.size + 1 : -off, off >= 0 ? "past the end of" : "before", e.size);
            return 1; } }
    snprintf(out, outlen, "VF-GUARD fault at %p: not in a guarded mapping (wild/null/freed)", (void *)addr);
    return 0;
}
}

static void *guarded_alloc(size_t size, size_t align) {
    if (align == 0) { align = size & (~size + 1); if (align > 16 || align == 0) align = 16; } // natural alignment: keeps int arrays flush against the guard
    if (align < 4) align = 4;
    size_t rsize = (size + 3) & ~(size_t)3; if (rsize == 0) rsize = 4;
    if (align > 4) rsize = (rsize + align - 1) & ~(align - 1); // keep the end flush only when size is a multiple of align
    size_t body = (rsize + PAGE - 1) & ~(PAGE - 1);
    size_t maplen = body + PAGE;
    char *base = (char *)mmap(nullptr, maplen, PROT_READ | PROT_WRITE, MAP_PRIVATE | MAP_ANONYMOUS, -1, 0);
    if (base == MAP_FAILED) return nullptr;
    char *user;
    if (mode == AFTER) { mprotect(base + body, PAGE, PROT_NONE); user = base + body - rsize; if (((uintptr_t)user & (align - 1)) != 0) user = (char *)((uintptr_t)user & ~(uintptr_t)(align - 1)); }
    else { mprotect(base, PAGE, PROT_NONE); user = base + PAGE; }
    if (fillbyte >= 0) memset(user, fillbyte, mode == AFTER ? (size_t)(base + body - user) : body);
    lock();
    size_t h = hashp((uintptr_t)user); bool ok = false;
    for (size_t i = 0; i < TABSZ; i++) { Ent &e = tab[(h + i) & (TABSZ - 1)]; if (e.user <= TOMB) { e.user = (uintptr_t)user; e.base = (uintptr_t)base; e.maplen = maplen; e.size = size; e.seq = vf_total_allocs; ok = true; break; } }
    if (ok) { vf_guarded_live++; vf_guarded_allocs++; if (vf_guarded_live > vf_peak_guarded) vf_peak_guarded = vf_guarded_live; vf_live_blocks++; vf_live_bytes += (long)size; vf_total_allocs++; }
    unlock();
    if (!ok) { munmap(base, maplen); return nullptr; }
    return user;
}
static bool guarded_free(void *p, size_t *oldsize = nullptr, bool keep = false) {
    lock(); uintptr_t u = (uintptr_t)p; size_t h = hashp(u); Ent found = {0, 0, 0, 0, 0};
    for (size_t i = 0; i < TABSZ; i++) { Ent &e = tab[(h + i) & (TABSZ - 1)]; if (e.user == 0) break; if (e.user == u) { found = e; if (!keep) { e.user = TOMB; vf_guarded_live--; vf_live_blocks--; vf_live_bytes -= (long)e.size; } break; } }
    unlock();
    if (!found.user) return false;
    if (oldsize) *oldsize = found.size;
    if (!keep) munmap((void *)found.base, found.maplen);
    return true;
}

static void *do_alloc(size_t size, size_t align, bool zero) {
    if (mode < 0) init_mode();
    if (mode != OFF && size <= guard_big && (size_t)vf_guarded_live < guard_max) {
        void *p = guarded_alloc(size, align);
        if (p) { if (zero) memset(p, 0, size); return p; }
    }
    void *p = align > 16 ? __libc_memalign(align, size) : __libc_malloc(size ? size : 1);
    if (!p) return nullptr;
    if (zero) memset(p, 0, size); else if (fillbyte >= 0) memset(p, fillbyte, size);
    lock(); vf_live_blocks++; vf_live_bytes += (long)malloc_usable_size(p); vf_total_allocs++; if (mode != OFF) vf_unguarded_allocs++; unlock();
    return p;
}

extern "C" {
void *malloc(size_t n) { return do_alloc(n, 0, false); }
void *calloc(size_t a, size_t b) { size_t n; if (__builtin_mul_overflow(a, b, &n)) { errno = ENOMEM; return nullptr; } return do_alloc(n, 0, true); }
void free(void *p) {
    if (!p) return;
    if (mode > OFF && guarded_free(p)) return;
    lock(); vf_live_blocks--; vf_live_bytes -= (long)malloc_usable_size(p); unlock();
    __libc_free(p);
}
void *realloc(void *p, size_t n) {
    if (!p) return malloc(n);
    if (n == 0) { free(p); return nullptr; }
    size_t old = 0;
    if (mode > OFF && guarded_free(p, &old, true)) { void *q = do_alloc(n, 0, false); if (!q) return nullptr; memcpy(q, p, old < n ? old : n); guarded_free(p); return q; }
    old = malloc_usable_size(p);
    void *q = do_alloc(n, 0, false); if (!q) return nullptr; memcpy(q, p, old < n ? old : n); free(p); return q;
}
int posix_memalign(void **out, size_t align, size_t n) { void *p = do_alloc(n, align, false); if (!p) return ENOMEM; *out = p; return 0; }
void *aligned_alloc(size_t align, size_t n) { return do_alloc(n, align, false); }
void *memalign(size_t align, size_t n) { return do_alloc(n, align, false); }
void *valloc(size_t n) { return do_alloc(n, 4096, false); }
}
