// vf.hpp — shared harness runtime for the bounded-exhaustive checks (header only).
//
// A harness enumerates cases; every case has a printable key. The runtime provides
//   * argument parsing (--out, --tier, --shard i/n, --only key, --deadline s, k=v options)
//   * sharding by case index, "only this key" replay filter
//   * counters: evaluations, distinct non-trivial cases, distinct outcomes, samples, stats
//   * violations with key + message
//   * fork-per-case isolation with classification of fatal outcomes
//   * a progress cell (shared mmap) naming the case in flight, so the driver can attribute a crash
//   * JSON result file consumed by bin/check
#pragma once
#include <cstdint>
#include <cstdio>
#include <cstdlib>
#include <cstring>
#include <string>
#include <vector>
#include <map>
#include <set>
#include <functional>
#include <chrono>
#include <unistd.h>
#include <signal.h>
#include <fcntl.h>
#include <sys/mman.h>
#include <sys/wait.h>
#include <sys/stat.h>
#include <poll.h>
#include <errno.h>
#include <stdarg.h>

namespace vf {

struct Violation { std::string key, msg; };

struct State {
    std::string out, tier = "quick", only, backend = "?", variant = "?";
    int shard = 0, nshards = 1;
    long seed = 0;
    double deadline_s = 1e18;
    std::map<std::string, std::string> opt;
    uint64_t evaluations = 0, nontrivial = 0, case_counter = 0;
    std::set<uint64_t> outcomes;
    std::vector<std::string> samples;
    std::vector<Violation> violations;
    std::map<std::string, double> stats;     // merge policy by prefix: max_ / min_ / sum_ / (other: last)
    std::map<std::string, std::string> info; // free-form strings
    bool exhaustive = true;                  // cleared when a cap/deadline cut the enumeration
    bool deadline_hit = false;
    char *cur = nullptr;                     // shared progress cell (256 bytes)
    std::chrono::steady_clock::time_point t0;
    size_t max_samples = 6, max_violations = 40;
    std::string blob;                        // free-form payload shipped from a forked child to its parent (last child wins)
};
inline State &S() { static State s; return s; }

inline std::string fmt(const char *f, ...) {
    char buf[2048]; va_list ap; va_start(ap, f); vsnprintf(buf, sizeof buf, f, ap); va_end(ap); return buf;
}
inline uint64_t fnv(const void *p, size_t n, uint64_t h = 1469598103934665603ULL) {
    const unsigned char *c = (const unsigned char *)p;
    for (size_t i = 0; i < n; i++) { h ^= c[i]; h *= 1099511628211ULL; }
    return h;
}
inline uint64_t mix(uint64_t h, uint64_t v) { return fnv(&v, 8, h); }
// splitmix64: deterministic content generator for "seed k" members of an alphabet (NOT used to pick cases)
inline uint64_t splitmix(uint64_t &x) { uint64_t z = (x += 0x9E3779B97F4A7C15ULL); z = (z ^ (z >> 30)) * 0xBF58476D1CE4E5B9ULL; z = (z ^ (z >> 27)) * 0x94D049BB133111EBULL; return z ^ (z >> 31); }

inline double elapsed() { return std::chrono::duration<double>(std::chrono::steady_clock::now() - S().t0).count(); }
inline bool quick() { return S().tier == "quick"; }
inline bool thorough() { return !quick(); }
inline bool deadline() {
    if (S().deadline_hit) return true;
    if (elapsed() > S().deadline_s) { S().deadline_hit = true; S().exhaustive = false; return true; }
    return false;
}
inline std::string opt(const std::string &k, const std::string &d = "") { auto it = S().opt.find(k); return it == S().opt.end() ? d : it->second; }
inline long opti(const std::string &k, long d) { auto it = S().opt.find(k); return it == S().opt.end() ? d : atol(it->second.c_str()); }

inline void init(int argc, char **argv) {
    State &s = S(); s.t0 = std::chrono::steady_clock::now();
    for (int i = 1; i < argc; i++) {
        std::string a = argv[i];
        auto next = [&]() -> std::string { if (i + 1 >= argc) { fprintf(stderr, "missing value for %s\n", a.c_str()); exit(2); } return argv[++i]; };
        if (a == "--out") s.out = next();
        else if (a == "--tier") s.tier = next();
        else if (a == "--only") s.only = next();
        else if (a == "--backend") s.backend = next();
        else if (a == "--variant") s.variant = next();
        else if (a == "--seed") s.seed = atol(next().c_str());
        else if (a == "--deadline") s.deadline_s = atof(next().c_str());
        else if (a == "--shard") { std::string v = next(); sscanf(v.c_str(), "%d/%d", &s.shard, &s.nshards); }
        else if (a.find('=') != std::string::npos) s.opt[a.substr(0, a.find('='))] = a.substr(a.find('=') + 1);
        else { fprintf(stderr, "unknown argument %s\n", a.c_str()); exit(2); }
    }
    if (!s.out.empty()) {
        std::string p = s.out + ".cur";
        int fd = open(p.c_str(), O_RDWR | O_CREAT | O_TRUNC, 0644);
        if (fd >= 0 && ftruncate(fd, 256) == 0) { void *m = mmap(nullptr, 256, PROT_READ | PROT_WRITE, MAP_SHARED, fd, 0); if (m != MAP_FAILED) s.cur = (char *)m; }
        if (fd >= 0) close(fd);
    }
}

inline void current(const std::string &key) { if (S().cur) { strncpy(S().cur, key.c_str(), 255); S().cur[255] = 0; } }

// shard filter on a running case counter: call once per enumerated case, in enumeration order
inline bool mine() { State &s = S(); uint64_t i = s.case_counter++; return (int)(i % (uint64_t)s.nshards) == s.shard; }
// replay filter: run only the case whose key equals --only (when given)
inline bool want(const std::string &key) {
    const std::string &o = S().only; static const std::string EOG = "(end-of-group)";
    if (o.empty() || o == key) return true;
    if (o.size() > EOG.size() && o.compare(o.size() - EOG.size(), EOG.size(), EOG) == 0) return key.compare(0, o.size() - EOG.size(), o, 0, o.size() - EOG.size()) == 0; // replay of a whole group
    return false;
}
// a case is taken when it passes the replay filter and belongs to this shard
inline bool take(const std::string &key) { if (!S().only.empty()) return S().only == key; return mine(); }

// group of cases run together (e.g. in one forked child): sharded as one unit; a replay key selects the group by prefix
inline bool take_group(const std::string &prefix) { if (!S().only.empty()) return S().only.compare(0, prefix.size(), prefix) == 0; return mine(); }
inline std::string curkey() { return S().cur ? std::string(S().cur) : std::string(); }
inline void eval(uint64_t n = 1) { S().evaluations += n; }
inline void nontrivial(uint64_t n = 1) { S().nontrivial += n; }
inline void outcome(uint64_t h) { if (S().outcomes.size() < 8192) S().outcomes.insert(h); }
inline void sample(const std::string &x) { if (S().samples.size() < S().max_samples) S().samples.push_back(x); }
inline void violation(const std::string &key, const std::string &msg) {
    State &s = S();
    for (auto &v : s.violations) if (v.key == key) return; // one per key
    if (s.violations.size() < s.max_violations) s.violations.push_back({key, msg});
    else s.stats["sum_violations_dropped"] += 1;
}
inline void stat_max(const std::string &k, double v) { auto &m = S().stats; std::string n = "max_" + k; auto it = m.find(n); if (it == m.end() || v > it->second) m[n] = v; }
inline void stat_min(const std::string &k, double v) { auto &m = S().stats; std::string n = "min_" + k; auto it = m.find(n); if (it == m.end() || v < it->second) m[n] = v; }
inline void stat_sum(const std::string &k, double v) { S().stats["sum_" + k] += v; }
inline void info(const std::string &k, const std::string &v) { S().info[k] = v; }
inline void blob(const std::string &b) { S().blob = b; }

inline std::string jesc(const std::string &x) {
    std::string o; for (unsigned char c : x) { if (c == '"' || c == '\\') { o += '\\'; o += c; } else if (c == '\n') o += "\\n"; else if (c < 0x20 || c >= 0x7f) o += fmt("\\u%04x", c); else o += c; } return o;
}

inline void write_json(FILE *f) {
    State &s = S();
    fprintf(f, "{\"backend\":\"%s\",\"variant\":\"%s\",\"tier\":\"%s\",\"shard\":%d,\"nshards\":%d,\n", jesc(s.backend).c_str(), jesc(s.variant).c_str(), s.tier.c_str(), s.shard, s.nshards);
    fprintf(f, "\"evaluations\":%llu,\"nontrivial\":%llu,\"exhaustive\":%s,\"deadline_hit\":%s,\"wall_s\":%.3f,\n", (unsigned long long)s.evaluations, (unsigned long long)s.nontrivial, s.exhaustive ? "true" : "false", s.deadline_hit ? "true" : "false", elapsed());
    fprintf(f, "\"outcomes\":["); { bool first = true; for (auto h : s.outcomes) { fprintf(f, "%s\"%016llx\"", first ? "" : ",", (unsigned long long)h); first = false; } } fprintf(f, "],\n");
    fprintf(f, "\"samples\":["); for (size_t i = 0; i < s.samples.size(); i++) fprintf(f, "%s\"%s\"", i ? "," : "", jesc(s.samples[i]).c_str()); fprintf(f, "],\n");
    fprintf(f, "\"violations\":["); for (size_t i = 0; i < s.violations.size(); i++) fprintf(f, "%s{\"key\":\"%s\",\"msg\":\"%s\"}", i ? "," : "", jesc(s.violations[i].key).c_str(), jesc(s.violations[i].msg).c_str()); fprintf(f, "],\n");
    fprintf(f, "\"stats\":{"); { bool first = true; for (auto &kv : s.stats) { fprintf(f, "%s\"%s\":%.17g", first ? "" : ",", jesc(kv.first).c_str(), kv.second); first = false; } } fprintf(f, "},\n");
    fprintf(f, "\"info\":{"); { bool first = true; for (auto &kv : s.info) { fprintf(f, "%s\"%s\":\"%s\"", first ? "" : ",", jesc(kv.first).c_str(), jesc(kv.second).c_str()); first = false; } } fprintf(f, "}}\n");
}

inline int finish() {
    State &s = S();
    if (s.out.empty()) { write_json(stdout); }
    else { std::string tmp = s.out + ".tmp"; FILE *f = fopen(tmp.c_str(), "w"); if (!f) { perror("out"); return 2; } write_json(f); fclose(f); rename(tmp.c_str(), s.out.c_str()); }
    current("");
    fflush(stdout);
    return 0; // the driver decides the verdict from the JSON
}

// ---------------------------------------------------------------------------------------------
// fork-per-case isolation. The child runs fn(); its counters/violations/outcomes are shipped back
// through a pipe and merged. Fatal outcomes are classified and returned.
struct Fate { enum Kind { RETURNED, EXITED, SIGNALED, TIMEOUT } kind; int code; /*exit code or signal*/ std::string text; /*child's stderr tail*/
              bool died() const { return kind != RETURNED; } };

inline void ship(int fd) { // child side: serialise the delta
    State &s = S(); FILE *f = fdopen(fd, "w");
    fprintf(f, "E %llu %llu\n", (unsigned long long)s.evaluations, (unsigned long long)s.nontrivial);
    for (auto h : s.outcomes) fprintf(f, "O %llx\n", (unsigned long long)h);
    for (auto &x : s.samples) fprintf(f, "S %s\n", jesc(x).c_str());
    for (auto &v : s.violations) fprintf(f, "V %s\t%s\n", jesc(v.key).c_str(), jesc(v.msg).c_str());
    for (auto &kv : s.stats) fprintf(f, "T %s %.17g\n", kv.first.c_str(), kv.second);
    fprintf(f, "X %d\n", s.exhaustive ? 1 : 0);
    if (!s.blob.empty()) fprintf(f, "B %s\n", jesc(s.blob).c_str());
    fclose(f);
}
inline void absorb(const std::string &buf) { // parent side
    State &s = S(); size_t p = 0;
    while (p < buf.size()) {
        size_t e = buf.find('\n', p); if (e == std::string::npos) e = buf.size(); std::string ln = buf.substr(p, e - p); p = e + 1;
        if (ln.size() < 2) continue; char t = ln[0]; std::string r = ln.substr(2);
        if (t == 'E') { unsigned long long a, b; if (sscanf(r.c_str(), "%llu %llu", &a, &b) == 2) { s.evaluations += a; s.nontrivial += b; } }
        else if (t == 'O') outcome(strtoull(r.c_str(), nullptr, 16));
        else if (t == 'S') sample(r);
        else if (t == 'V') { size_t tb = r.find('\t'); violation(r.substr(0, tb), tb == std::string::npos ? "" : r.substr(tb + 1)); }
        else if (t == 'T') { char name[256]; double v; if (sscanf(r.c_str(), "%255s %lf", name, &v) == 2) { std::string n = name; if (!n.compare(0, 4, "max_")) stat_max(n.substr(4), v); else if (!n.compare(0, 4, "min_")) stat_min(n.substr(4), v); else if (!n.compare(0, 4, "sum_")) stat_sum(n.substr(4), v); else s.stats[n] = v; } }
        else if (t == 'X') { if (r[0] == '0') s.exhaustive = false; }
        else if (t == 'B') s.blob = r;
    }
}
// timeout_s is a kill timer for hangs.  Unless strict_timeout is set, slow is not a verdict: the timer is stretched to the job's remaining deadline (+120 s; children
// watch the deadline themselves between cases) and a child killed after the deadline has passed counts as "deadline hit" (coverage cut, exhaustive=false), not as a death.
inline Fate forked(const std::function<void()> &fn, double timeout_s = 60.0, bool quiet_stderr = true, bool strict_timeout = false) {
    if (!strict_timeout) { double remain = S().deadline_s - elapsed(); if (remain < 1e15 && remain + 120 > timeout_s) timeout_s = remain + 120; if (timeout_s < 30) timeout_s = 30; }
    int pd[2], pe[2]; if (pipe(pd) || pipe(pe)) { perror("pipe"); exit(2); }
    fflush(stdout); fflush(stderr);
    pid_t pid = fork();
    if (pid < 0) { perror("fork"); exit(2); }
    if (pid == 0) {
        close(pd[0]); close(pe[0]);
        if (quiet_stderr) dup2(pe[1], 2); close(pe[1]);
        State &s = S(); s.blob.clear(); s.evaluations = s.nontrivial = 0; s.outcomes.clear(); s.samples.clear(); s.violations.clear(); s.stats.clear(); s.exhaustive = true;
        alarm((unsigned)(timeout_s + 1));
        fn();
        ship(pd[1]);
        fflush(nullptr);
        _exit(0);
    }
    close(pd[1]); close(pe[1]);
    std::string buf, err; char tmp[4096]; ssize_t r;
    // drain both pipes concurrently (a child that floods stderr must not block against a full pipe)
    struct pollfd pf[2] = {{pd[0], POLLIN, 0}, {pe[0], POLLIN, 0}}; int open_fds = 2;
    while (open_fds > 0) {
        int pr = poll(pf, 2, -1); if (pr < 0) { if (errno == EINTR) continue; break; }
        for (int q = 0; q < 2; q++) if (pf[q].fd >= 0 && (pf[q].revents & (POLLIN | POLLHUP | POLLERR))) {
            r = read(pf[q].fd, tmp, sizeof tmp);
            if (r > 0) { if (q == 0) buf.append(tmp, r); else { err.append(tmp, r); if (err.size() > 65536) err.erase(4096, err.size() - 36864); } }
            else { close(pf[q].fd); pf[q].fd = -1; open_fds--; }
        }
    }
    int st = 0; waitpid(pid, &st, 0);
    absorb(buf);
    Fate f; f.text = err.size() > 1500 ? err.substr(0, 1500) : err;
    if (WIFSIGNALED(st)) { f.kind = WTERMSIG(st) == SIGALRM ? Fate::TIMEOUT : Fate::SIGNALED; f.code = WTERMSIG(st); }
    else if (WIFEXITED(st) && WEXITSTATUS(st) != 0) { f.kind = Fate::EXITED; f.code = WEXITSTATUS(st); }
    else { f.kind = Fate::RETURNED; f.code = 0; }
    if (f.kind == Fate::TIMEOUT && !strict_timeout && elapsed() > S().deadline_s) { S().deadline_hit = true; S().exhaustive = false; f.kind = Fate::RETURNED; f.code = 0; stat_sum("children_cut_by_deadline", 1); }
    return f;
}
inline std::string fate_str(const Fate &f) {
    switch (f.kind) { case Fate::RETURNED: return "returned"; case Fate::EXITED: return fmt("exit(%d)", f.code); case Fate::TIMEOUT: return "timeout"; default: return fmt("signal %d (%s)", f.code, strsignal(f.code)); }
}

} // namespace vf
