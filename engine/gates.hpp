// gates.hpp — the public gate API behind one table, plus helpers shared by C01, C02, C15, C06.
#pragma once
#include <tfhe.h>
#include <vector>
#include <string>
#include <cstring>
#include "ref.hpp"
#include "vf.hpp"

namespace gates {

typedef TFheGateBootstrappingCloudKeySet CK;
typedef TFheGateBootstrappingSecretKeySet SK;

struct Gate {
    const char *name; int arity; // 0 CONSTANT, 1 NOT/COPY, 2 binary, 3 MUX
    void (*f2)(LweSample *, const LweSample *, const LweSample *, const CK *);
    int (*truth)(int a, int b, int c);
    int c8, ka, kb; // binary gates: combination = c8/8 + ka*ca + kb*cb  (then sign bootstrap); 0 when not applicable
    bool boots;
};
inline const std::vector<Gate> &table() {
    static const std::vector<Gate> T = {
        {"NAND", 2, bootsNAND, [](int a, int b, int) { return 1 - (a & b); }, 1, -1, -1, true},
        {"AND", 2, bootsAND, [](int a, int b, int) { return a & b; }, -1, 1, 1, true},
        {"OR", 2, bootsOR, [](int a, int b, int) { return a | b; }, 1, 1, 1, true},
        {"XOR", 2, bootsXOR, [](int a, int b, int) { return a ^ b; }, 2, 2, 2, true},
        {"XNOR", 2, bootsXNOR, [](int a, int b, int) { return 1 - (a ^ b); }, -2, -2, -2, true},
        {"NOR", 2, bootsNOR, [](int a, int b, int) { return 1 - (a | b); }, -1, -1, -1, true},
        {"ANDNY", 2, bootsANDNY, [](int a, int b, int) { return (1 - a) & b; }, -1, -1, 1, true},
        {"ANDYN", 2, bootsANDYN, [](int a, int b, int) { return a & (1 - b); }, -1, 1, -1, true},
        {"ORNY", 2, bootsORNY, [](int a, int b, int) { return (1 - a) | b; }, 1, -1, 1, true},
        {"ORYN", 2, bootsORYN, [](int a, int b, int) { return a | (1 - b); }, 1, 1, -1, true},
        {"MUX", 3, nullptr, [](int a, int b, int c) { return a ? b : c; }, 0, 0, 0, true},
        {"NOT", 1, nullptr, [](int a, int, int) { return 1 - a; }, 0, 0, 0, false},
        {"COPY", 1, nullptr, [](int a, int, int) { return a; }, 0, 0, 0, false},
        {"CONSTANT", 0, nullptr, [](int a, int, int) { return a; }, 0, 0, 0, false},
    };
    return T;
}
// apply gate g: inputs in[0..arity) (CONSTANT takes the plaintext value `cst`)
inline void apply(const Gate &g, LweSample *r, const LweSample *a, const LweSample *b, const LweSample *c, int cst, const CK *ck) {
    if (g.arity == 2) g.f2(r, a, b, ck);
    else if (g.arity == 3) bootsMUX(r, a, b, c, ck);
    else if (!strcmp(g.name, "NOT")) bootsNOT(r, a, ck);
    else if (!strcmp(g.name, "COPY")) bootsCOPY(r, a, ck);
    else bootsCONSTANT(r, cst, ck);
}

static const ref::T32 MU8 = (ref::T32)0x20000000; // 1/8

// library-independent rounded phase p of an LWE sample:  round_2N(b) - sum round_2N(a_i) s_i  (mod 2N); *ties counts exact ties met
inline int rounded_phase(const ref::T32 *a, ref::T32 b, const int32_t *s, int n, int N, int *ties) {
    int64_t M = 2 * N; bool tie; int64_t p = ref::round_mod((uint32_t)b, M, &tie); if (tie && ties) (*ties)++;
    for (int i = 0; i < n; i++) { if (!s[i]) continue; int64_t r = ref::round_mod((uint32_t)a[i], M, &tie); if (tie && ties) (*ties)++; p -= r; }
    p %= M; if (p < 0) p += M; return (int)p;
}

// deep byte snapshot of everything reachable from a cloud key (parameters, key-switching rows, TGSW rows, FFT image)
inline uint64_t hash_lwe(const LweSample *s, int n, uint64_t h) { h = vf::fnv(s->a, n * 4, h); h = vf::fnv(&s->b, 4, h); return vf::fnv(&s->current_variance, 8, h); }

inline uint64_t hash_tlwe(const TLweSample *s, int N, int k, uint64_t h) { for (int i = 0; i <= k; i++) h = vf::fnv(s->a[i].coefsT, N * 4, h); return vf::fnv(&s->current_variance, 8, h); }
inline uint64_t hash_lweparams(const LweParams *p, uint64_t h) { h = vf::fnv(&p->n, 4, h); h = vf::fnv(&p->alpha_min, 8, h); return vf::fnv(&p->alpha_max, 8, h); }
inline uint64_t hash_tgswparams(const TGswParams *g, uint64_t h) { h = vf::fnv(&g->l, 4, h); h = vf::fnv(&g->Bgbit, 4, h); h = vf::fnv(&g->Bg, 4, h); h = vf::fnv(&g->halfBg, 4, h); h = vf::fnv(&g->maskMod, 4, h); h = vf::fnv(&g->kpl, 4, h); h = vf::fnv(&g->offset, 4, h); h = vf::fnv(g->h, g->l * 4, h);
    const TLweParams *t = g->tlwe_params; h = vf::fnv(&t->N, 4, h); h = vf::fnv(&t->k, 4, h); h = vf::fnv(&t->alpha_min, 8, h); h = vf::fnv(&t->alpha_max, 8, h); return hash_lweparams(&t->extracted_lweparams, h); }
inline uint64_t hash_ks(const LweKeySwitchKey *ks, uint64_t h) { h = vf::fnv(&ks->n, 4, h); h = vf::fnv(&ks->t, 4, h); h = vf::fnv(&ks->basebit, 4, h); h = vf::fnv(&ks->base, 4, h); h = hash_lweparams(ks->out_params, h); int tot = ks->n * ks->t * ks->base; for (int r = 0; r < tot; r++) h = hash_lwe(&ks->ks0_raw[r], ks->out_params->n, h); return h; }
// deep hash of everything reachable from a bootstrapping key pair (coefficient image, FFT image, both key-switching keys, all parameters)
inline uint64_t hash_bk(const LweBootstrappingKey *bk, const LweBootstrappingKeyFFT *bf, uint64_t h = 1469598103934665603ULL) {
    int n = bk->in_out_params->n, N = bk->bk_params->tlwe_params->N, k = bk->bk_params->tlwe_params->k, kpl = bk->bk_params->kpl;
    h = hash_lweparams(bk->in_out_params, h); h = hash_tgswparams(bk->bk_params, h); h = hash_ks(bk->ks, h);
    for (int i = 0; i < n; i++) for (int p = 0; p < kpl; p++) h = hash_tlwe(&bk->bk[i].all_sample[p], N, k, h);
    if (bf) { h = hash_ks(bf->ks, h); for (int i = 0; i < n; i++) for (int p = 0; p < kpl; p++) { const TLweSampleFFT *s = &bf->bkFFT[i].all_samples[p]; for (int q = 0; q <= k; q++) h = vf::fnv(s->a[q].data, (size_t)N * 8, h); h = vf::fnv(&s->current_variance, 8, h); } }
    return h;
}
} // namespace gates
