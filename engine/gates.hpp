// gates.hpp — the public gate API behind one table, plus helpers shared by C01, C02, C15, C06.
#pragma once
#include <tfhe.h>
#include <vector>
#include <string>
#include <cstring>
#include "ref.hpp"
#include "vf.hpp"

namespace gates {

typedef TFheGateBootstrappingCloudKeySet CK;
typedef TFheGateBootstrappingSecretKeySet SK;

struct Gate {
    const char *name; int arity; // 0 CONSTANT, 1 NOT/COPY, 2 binary, 3 MUX
    void (*f2)(LweSample *, const LweSample *, const LweSample *, const CK *);
    int (*truth)(int a, int b, int c);
    int c8, ka, kb; // binary gates: combination = c8/8 + ka*ca + kb*cb  (then sign bootstrap); 0 when not applicable
    bool boots;
};
inline const std::vector<Gate> &table() {
    static const std::vector<Gate> T = {
        {"NAND", 2, bootsNAND, [](int a, int b, int) { return 1 - (a & b); }, 1, -1, -1, true},
        {"AND", 2, bootsAND, [](int a, int b, int) { return a & b; }, -1, 1, 1, true},
        {"OR", 2, bootsOR, [](int a, int b, int) { return a | b; }, 1, 1, 1, true},
        {"XOR", 2, bootsXOR, [](int a, int b, int) { return a ^ b; }, 2, 2, 2, true},
        {"XNOR", 2, bootsXNOR, [](int a, int b, int) { return 1 - (a ^ b); }, -2, -2, -2, true},
        {"NOR", 2, bootsNOR, [](int a, int b, int) { return 1 - (a | b); }, -1, -1, -1, true},
        {"ANDNY", 2, bootsANDNY, [](int a, int b, int) { return (1 - a) & b; }, -1, -1, 1, true},
        {"ANDYN", 2, bootsANDYN, [](int a, int b, int) { return a & (1 - b); }, -1, 1, -1, true},
        {"ORNY", 2, bootsORNY, [](int a, int b, int) { return (1 - a) | b; }, 1, -1, 1, true},
        {"ORYN", 2, bootsORYN, [](int a, int b, int) { return a | (1 - b); }, 1, 1, -1, true},
        {"MUX", 3, nullptr, [](int a, int b, int c) { return a ? b : c; }, 0, 0, 0, true},
        {"NOT", 1, nullptr, [](int a, int, int) { return 1 - a; }, 0, 0, 0, false},
        {"COPY", 1, nullptr, [](int a, int, int) { return a; }, 0, 0, 0, false},
        {"CONSTANT", 0, nullptr, [](int a, int, int) { return a; }, 0, 0, 0, false},
    };
    return T;
}
// apply gate g: inputs in[0..arity) (CONSTANT takes the plaintext value `cst`)
inline void apply(const Gate &g, LweSample *r, const LweSample *a, const LweSample *b, const LweSample *c, int cst, const CK *ck) {
    if (g.arity == 2) g.f2(r, a, b, ck);
    else if (g.arity == 3) bootsMUX(r, a, b, c, ck);
    else if (!strcmp(g.name, "NOT")) bootsNOT(r, a, ck);
    else if (!strcmp(g.name, "COPY")) bootsCOPY(r, a, ck);
    else bootsCONSTANT(r, cst, ck);
}

static const ref::T32 MU8 = (ref::T32)0x20000000; // 1/8

// library-independent rounded phase p of an LWE sample:  round_2N(b) - sum round_2N(a_i) s_i  (mod 2N); *ties counts exact ties met
inline int rounded_phase(const ref::T32 *a, ref::T32 b, const int32_t *s, int n, int N, int *ties) {
    int64_t M = 2 * N; bool tie; int64_t p = ref::round_mod((uint32_t)b, M, &tie); if (tie && ties) (*ties)++;
    for (int i = 0; i < n; i++) { if (!s[i]) continue; int64_t r = ref::round_mod((uint32_t)a[i], M, &tie); if (tie && ties) (*ties)++; p -= r; }
    p %= M; if (p < 0) p += M; return (int)p;
}

// deep byte snapshot of everything reachable from a cloud key (parameters, key-switching rows, TGSW rows, FFT image)
inline uint64_t hash_lwe(const LweSample *s, int n, uint64_t h) { h = vf::fnv(s->a, n * 4, h); h = vf::fnv(&s->b, 4, h); return vf::fnv(&s->current_variance, 8, h); }

} // namespace gates
