// ref.hpp — reference models, independent of library code.  Exact integer arithmetic only.
#pragma once
#include <cstdint>
#include <vector>
#include <cstring>
#include <cmath>

namespace ref {
typedef __int128 i128;
typedef unsigned __int128 u128;
typedef int32_t T32;

// round-to-nearest of M*phase/2^32, reduced mod M.  Returns the nearest integer; *tie is set when the
// value is exactly half-way (then r and r-1 are both acceptable).
inline int64_t round_mod(uint32_t phase, int64_t M, bool *tie = nullptr) {
    u128 x = (u128)(uint64_t)M * phase + ((u128)1 << 31);
    uint64_t r = (uint64_t)(x >> 32);
    if (tie) *tie = ((uint64_t)x & 0xFFFFFFFFu) == 0;
    return (int64_t)(r % (uint64_t)M);
}
// distance (in units of 2^-32 * M, i.e. numerator units) from a rounding boundary; small = boundary-adjacent
inline uint64_t boundary_dist(uint32_t phase, int64_t M) {
    u128 x = (u128)(uint64_t)M * phase + ((u128)1 << 31);
    uint64_t f = (uint64_t)x & 0xFFFFFFFFu; // fractional numerator in [0,2^32)
    return f < (uint64_t(1) << 32) - f ? f : (uint64_t(1) << 32) - f;
}

// negacyclic product  r = a * b  mod (X^N+1, 2^32); a integer, b torus
inline void negacyclic_mul(T32 *r, const int32_t *a, const T32 *b, int N) {
    std::vector<i128> acc(N, 0);
    for (int i = 0; i < N; i++) { if (!a[i]) continue; i128 ai = a[i];
        for (int j = 0; j < N; j++) { int k = i + j; if (k < N) acc[k] += ai * b[j]; else acc[k - N] -= ai * b[j]; } }
    for (int i = 0; i < N; i++) r[i] = (T32)(uint32_t)(uint64_t)(acc[i]);
}
// 64-bit wrapping version (same result mod 2^32, much faster): products of 32-bit values fit in 63 bits, sums wrap mod 2^64 harmlessly
inline void negacyclic_mul_fast(T32 *r, const int32_t *a, const T32 *b, int N) {
    std::vector<uint64_t> acc(N, 0);
    for (int i = 0; i < N; i++) { if (!a[i]) continue; uint64_t ai = (uint64_t)(int64_t)a[i];
        for (int j = 0; j < N; j++) { uint64_t p = ai * (uint64_t)(int64_t)b[j]; int k = i + j; if (k < N) acc[k] += p; else acc[k - N] -= p; } }
    for (int i = 0; i < N; i++) r[i] = (T32)(uint32_t)acc[i];
}
// r = X^a * p  for a in [0,2N)
inline void mul_by_xai(T32 *r, int a, const T32 *p, int N) {
    for (int i = 0; i < N; i++) { int k = (i + a) % (2 * N); if (k < N) r[k] = p[i]; else r[k - N] = (T32)(0u - (uint32_t)p[i]); }
}
// coefficient p of the anticyclic extension of v (p in [0,2N)) of  X^{-p} v at position 0, i.e. (X^{2N-p} * v)[0]
inline T32 rotated_coef0(const T32 *v, int p, int N) { // coefficient 0 of X^{-p} * v
    p %= 2 * N; if (p == 0) return v[0]; if (p < N) return v[p]; if (p == N) return (T32)(0u - (uint32_t)v[0]); return (T32)(0u - (uint32_t)v[p - N]);
}
inline uint32_t u(T32 x) { return (uint32_t)x; }
inline int64_t sdiff(T32 a, T32 b) { return (int64_t)(int32_t)((uint32_t)a - (uint32_t)b); } // signed distance on the torus, units

// LWE phase with wrapping arithmetic:  b - sum a_i s_i
inline T32 lwe_phase(const T32 *a, T32 b, const int32_t *s, int n) { uint32_t x = (uint32_t)b; for (int i = 0; i < n; i++) x -= (uint32_t)a[i] * (uint32_t)s[i]; return (T32)x; }

} // namespace ref
