// C01 — every gate computes its Boolean function on every admissible input kind, both default parameter sets.
// Space: gate x truth row x input kind per wire {F fresh, T trivial, B bootstrapped, P+ / P- adversarial at +-(1/32 - 2^-20)} x PS x key seed
// (x back-end x build: one executable per library variant).  Oracle: decryption = truth table, and the harness-side exact prediction of
// the rounded phase p of the gate's internal combination lies in the half circle the truth table demands.
#include "vf.hpp"
#include "ref.hpp"
#include "gates.hpp"
#include <lwe-functions.h>
#include <map>
using namespace vf;
using namespace gates;

struct Keys { int lam; TFheGateBootstrappingParameterSet *ps; SK *sk; const CK *ck; LweSample *boot[2]; int n, N; };
static Keys *make_keys(int lam, int seed) {
    uint32_t sd[3] = {(uint32_t)S().seed, (uint32_t)seed, (uint32_t)lam}; tfhe_random_generator_setSeed(sd, 3);
    Keys *K = new Keys; K->lam = lam; K->ps = new_default_gate_bootstrapping_parameters(lam); K->sk = new_random_gate_bootstrapping_secret_keyset(K->ps); K->ck = &K->sk->cloud;
    K->n = K->ps->in_out_params->n; K->N = K->ps->tgsw_params->tlwe_params->N;
    LweSample *one = new_gate_bootstrapping_ciphertext(K->ps), *x = new_gate_bootstrapping_ciphertext(K->ps);
    bootsSymEncrypt(one, 1, K->sk);
    for (int b = 0; b < 2; b++) { K->boot[b] = new_gate_bootstrapping_ciphertext(K->ps); bootsSymEncrypt(x, b, K->sk); bootsAND(K->boot[b], x, one, K->ck); }
    return K;
}
static const char *KIND[] = {"F", "P+", "P-", "T", "B", "Z"}; // Z: fresh, then re-randomised (phase unchanged) so that the combination's b rounds to 0 — second wire only
static const int32_t ADV = (1 << 27) - (1 << 12); // 1/32 - 2^-20
static void make_input(Keys *K, LweSample *c, int bit, int kind) {
    switch (kind) {
        case 0: bootsSymEncrypt(c, bit, K->sk); break;
        case 3: bootsCONSTANT(c, bit, K->ck); break;
        case 4: lweCopy(c, K->boot[bit], K->ps->in_out_params); break;
        default: { bootsSymEncrypt(c, bit, K->sk); Torus32 ph = lwePhase(c, K->sk->lwe_key); Torus32 target = (bit ? MU8 : -MU8) + (kind == 1 ? ADV : -ADV); c->b += target - ph; }
    }
}
// predicted p for the combination c8/8 + ka*ca + kb*cb, from the inputs, without the library's rounding
static int predict_p(Keys *K, int c8, int ka, const LweSample *ca, int kb, const LweSample *cb, int *ties) {
    std::vector<Torus32> a(K->n); uint32_t b = (uint32_t)(c8 * (int64_t)MU8) + (uint32_t)ka * (uint32_t)ca->b + (uint32_t)kb * (uint32_t)cb->b;
    for (int i = 0; i < K->n; i++) a[i] = (Torus32)((uint32_t)ka * (uint32_t)ca->a[i] + (uint32_t)kb * (uint32_t)cb->a[i]);
    return rounded_phase(a.data(), (Torus32)b, K->sk->lwe_key->key, K->n, K->N, ties);
}

// histories over key-set objects: two key sets generated from ONE parameter object and alive together, used alternately; the first deleted and a
// third generated (its storage is typically re-used); ciphertexts living in arrays (count 5), results written to array elements.
static void keyset_histories() {
    for (int lam : {128, 80}) for (int variant = 0; variant < 2; variant++) {
        std::string key = fmt("keysets/lambda=%d/%s", lam, variant ? "C-replaces-A-before-use" : "A,B-alternate-then-C-replaces-A");
        if (!take(key)) continue; if (deadline()) return; current(key);
        uint32_t sd[3] = {(uint32_t)S().seed, 77u + variant, (uint32_t)lam}; tfhe_random_generator_setSeed(sd, 3);
        TFheGateBootstrappingParameterSet *ps = new_default_gate_bootstrapping_parameters(lam);
        SK *ks[3] = {new_random_gate_bootstrapping_secret_keyset(ps), new_random_gate_bootstrapping_secret_keyset(ps), nullptr};
        LweSample *arr = new_gate_bootstrapping_ciphertext_array(5, ps);
        std::vector<int> order = variant ? std::vector<int>{-1, 2, 1, 2} : std::vector<int>{0, 1, 0, 1, -1, 2, 1, 2};
        int step = 0; bool ok = true;
        for (int who : order) { step++;
            if (who < 0) { delete_gate_bootstrapping_secret_keyset(ks[0]); ks[0] = nullptr; ks[2] = new_random_gate_bootstrapping_secret_keyset(ps); continue; }
            SK *sk = ks[who];
            for (const Gate &g : table()) { if (!ok) break;
                int rows = g.arity == 0 ? 2 : 1 << g.arity; int row = (int)((fnv(g.name, strlen(g.name)) + step) % rows);
                int bits[3] = {row & 1, (row >> 1) & 1, (row >> 2) & 1};
                for (int q = 0; q < g.arity; q++) bootsSymEncrypt(&arr[1 + q], bits[q], sk);
                apply(g, &arr[4], &arr[1], &arr[2], &arr[3], bits[0], &sk->cloud);
                int want = g.truth(bits[0], bits[1], bits[2]), got = bootsSymDecrypt(&arr[4], sk);
                if (got != want) { violation(key, fmt("step %d: %s(%d,%d,%d) under key set %c (two key sets from one parameter object alive; A deleted and C generated at step %d) decrypts to %d, truth table says %d", step, g.name, bits[0], bits[1], bits[2], "ABC"[who], variant ? 1 : 5, got, want)); ok = false; }
                // the other live key set must NOT decrypt consistently by accident of sharing: its phase is unrelated -> nothing to assert; but the result must be admissible under its own key
                if (g.boots) { int64_t e = ref::sdiff(lwePhase(&arr[4], sk->lwe_key), want ? MU8 : -MU8); if (e < 0) e = -e; if (e >= (1 << 27)) { violation(key, fmt("step %d: %s output phase error %.5f >= 1/32 under key set %c", step, g.name, (double)e / 4294967296.0, "ABC"[who])); ok = false; } }
                eval(1); if (g.boots) nontrivial(1); outcome(mix(mix(fnv(g.name, strlen(g.name)), who), row * 2 + got));
            }
        }
        delete_gate_bootstrapping_ciphertext_array(5, arr);
        for (int q = 0; q < 3; q++) if (ks[q]) delete_gate_bootstrapping_secret_keyset(ks[q]);
        delete_gate_bootstrapping_parameters(ps);
    }
    sample("keysets/lambda=128/A,B-alternate-then-C-replaces-A: key sets A and B generated from one parameter object; all 14 gates under A, B, A, B; A deleted, C generated; all gates under C, B, C; ciphertexts are elements 1..4 of one array of 5");
}

// argument shapes of one gate call: the result object is one of the inputs (in place), and inputs whose advisory variance field is 0 although
// their mask is not (ciphertexts filled from raw a[], b: the field is bookkeeping, the phase is what makes an input admissible)
static void shape_cases() {
    for (int lam : {128, 80}) {
        Keys *K = nullptr; LweSample *in[3] = {0, 0, 0}, *out = nullptr;
        auto ensure = [&]() { if (!K) { K = make_keys(lam, 5); for (int q = 0; q < 3; q++) in[q] = new_gate_bootstrapping_ciphertext(K->ps); out = new_gate_bootstrapping_ciphertext(K->ps); } };
        for (const Gate &g : table()) { if (g.arity == 0) continue;
            for (int row = 0; row < (1 << g.arity); row++) for (int shape = 0; shape <= g.arity + 1; shape++) {
                // shape 0: variance fields zeroed; shape 1..arity: result = input shape-1; shape arity+1: variance fields set to a large value
                std::string key = fmt("shape/lambda=%d/%s/row=%d/%s", lam, g.name, row, shape == 0 ? "variance-field=0" : shape == g.arity + 1 ? "variance-field=1" : fmt("result=input%d", shape - 1).c_str());
                if (!take(key)) continue; if (deadline()) return; ensure(); current(key);
                { uint32_t sd[2] = {(uint32_t)fnv(key.data(), key.size()), (uint32_t)S().seed}; tfhe_random_generator_setSeed(sd, 2); }
                int bits[3] = {row & 1, (row >> 1) & 1, (row >> 2) & 1};
                for (int q = 0; q < g.arity; q++) { bootsSymEncrypt(in[q], bits[q], K->sk); if (shape == 0) in[q]->current_variance = 0.; if (shape == g.arity + 1) in[q]->current_variance = 1.; }
                LweSample *r = (shape >= 1 && shape <= g.arity) ? in[shape - 1] : out;
                apply(g, r, in[0], in[1], in[2], bits[0], K->ck);
                int want = g.truth(bits[0], bits[1], bits[2]), got = bootsSymDecrypt(r, K->sk);
                if (got != want) violation(key, fmt("%s(%d,%d,%d) %s decrypts to %d, truth table says %d (lambda=%d, output phase %.5f)", g.name, bits[0], bits[1], bits[2], shape == 0 ? "on inputs whose variance field is 0" : shape == g.arity + 1 ? "on inputs whose variance field is 1" : "with the result object equal to an input", got, want, lam, t32tod(lwePhase(r, K->sk->lwe_key))));
                if (g.boots) { int64_t e = ref::sdiff(lwePhase(r, K->sk->lwe_key), want ? MU8 : -MU8); if (e < 0) e = -e; if (e >= (1 << 27)) violation(key, fmt("%s output phase error %.5f >= 1/32", g.name, (double)e / 4294967296.0)); }
                eval(1); if (g.boots) nontrivial(1); outcome(mix(mix(fnv(g.name, strlen(g.name)), shape), row * 2 + got));
            }
        }
    }
    for (int lam : {128, 80}) { Keys *K = nullptr; for (int32_t v : {2, 3, 4, -1, 0x80, 0x7fffffff, (int32_t)0x80000000}) { std::string key = fmt("shape/lambda=%d/CONSTANT/value=%d", lam, v); if (!take(key)) continue; if (deadline()) return; current(key);
        if (!K) K = make_keys(lam, 5); LweSample *o = new_gate_bootstrapping_ciphertext(K->ps); bootsCONSTANT(o, v, K->ck); int got = bootsSymDecrypt(o, K->sk); LweSample *o2 = new_gate_bootstrapping_ciphertext(K->ps), *f = new_gate_bootstrapping_ciphertext(K->ps); bootsSymEncrypt(f, 1, K->sk); bootsXOR(o2, o, f, K->ck);
        if (got != 1 || bootsSymDecrypt(o2, K->sk) != 0) violation(key, fmt("bootsCONSTANT(%d) (a true value) decrypts to %d, XOR with an encryption of 1 decrypts to %d", v, got, bootsSymDecrypt(o2, K->sk))); eval(1); nontrivial(1); outcome(mix(0xC0, (uint32_t)v)); } }
    sample("shape/lambda=128/MUX/row=5/result=input2: bootsMUX(c, a, b, c) with fresh a=1, b=0, c=1 decrypts to MUX(1,0,1)=0");
    sample("shape/lambda=80/XOR/row=1/variance-field=0: fresh inputs whose current_variance field was set to 0 (as after a raw copy of a[], b)");
}

int main(int argc, char **argv) {
    init(argc, argv);
    if (opt("keysets") == "1") { shape_cases(); keyset_histories(); return finish(); }
    int K_ =(int)opti("K", quick() ? 1 : 2); int nk = (int)opti("kinds", quick() ? 3 : 5);
    std::map<int, Keys *> cache;
    // pass 0: 128-bit, pass 1: 80-bit, pass 2: 128-bit again (kinds F only): a gate must not remember the parameter set of an earlier key
    for (int pass = -1; pass < 3; pass++) for (int seed = 0; seed < ((pass == 2 || pass == -1) ? 1 : K_); seed++) {
        int lam = (pass == 1 || pass == -1) ? 80 : 128;   // pass -1: 80-bit first (F only), 0: 128-bit, 1: 80-bit, 2: 128-bit again (F only)
        Keys *K = nullptr; LweSample *in[3] = {0, 0, 0}, *out = nullptr;
        auto ensure = [&]() { if (!K) { Keys *&c = cache[lam * 100 + seed]; if (!c) c = make_keys(lam, seed); K = c; for (int q = 0; q < 3; q++) in[q] = new_gate_bootstrapping_ciphertext(K->ps); out = new_gate_bootstrapping_ciphertext(K->ps); } };
        for (const Gate &g : table()) {
            int rows = g.arity == 0 ? 2 : 1 << g.arity; int nkc = 1; for (int q = 0; q < g.arity; q++) nkc *= nk;
            if (pass == 2 || pass == -1) nkc = 1;
            for (int row = 0; row < rows; row++) for (int kc = 0; kc < nkc; kc++) {
                int bits[3] = {row & 1, (row >> 1) & 1, (row >> 2) & 1}; int kinds[3] = {kc % nk, (kc / nk) % nk, (kc / nk / nk) % nk};
                if (pass != 2 && pass != -1 && nk >= 3 && g.arity >= 2 && kinds[1] == 2 && kinds[0] == 0) kinds[1] = 5;   // the (F,P-) cell of two-input gates is replaced by (F,Z); P- stays covered by (P+,P-),(P-,P-)
                std::string key = fmt("%slambda=%d/seed=%d/%s/row=%d/kinds=%s,%s,%s", pass == 2 ? "again/" : pass == -1 ? "first/" : "", lam, seed, g.name, row, g.arity > 0 ? KIND[kinds[0]] : "-", g.arity > 1 ? KIND[kinds[1]] : "-", g.arity > 2 ? KIND[kinds[2]] : "-");
                if (opt("zonly") == "1" && !(g.arity >= 2 && kinds[1] == 5) && !(g.arity < 2 && kc == 0)) continue;   // slow builds in the quick tier: the rounded-phase-0 cases (and the unary gates) only
                if (!take(key)) continue; if (deadline()) goto done;
                ensure(); current(key);
                { uint32_t sd[2] = {(uint32_t)fnv(key.data(), key.size()), (uint32_t)S().seed}; tfhe_random_generator_setSeed(sd, 2); }
                for (int q = 0; q < g.arity; q++) make_input(K, in[q], bits[q], kinds[q] == 5 ? 0 : kinds[q]);
                if (g.arity >= 2 && kinds[1] == 5) { // re-randomise wire 1: a_j += d, b += d with s_j = 1 keeps the phase; choose d so that the internal b rounds to 0
                    int c8 = g.arity == 2 ? g.c8 : -1, ka = g.arity == 2 ? g.ka : 1, kb = g.arity == 2 ? g.kb : 1;
                    uint32_t x = (uint32_t)(c8 * (int64_t)MU8) + (uint32_t)ka * (uint32_t)in[0]->b + (uint32_t)kb * (uint32_t)in[1]->b;
                    int32_t d = (int32_t)(-(int64_t)(int32_t)x / kb); int j = 0; while (j < K->n && !K->sk->lwe_key->key[j]) j++;
                    in[1]->a[j] += d; in[1]->b += d; }
                apply(g, out, in[0], in[1], in[2], bits[0], K->ck);
                int want = g.truth(bits[0], bits[1], bits[2]); int got = bootsSymDecrypt(out, K->sk);
                if (got != want) violation(key, fmt("%s(%d,%d,%d) with input kinds %s,%s,%s decrypts to %d, truth table says %d (lambda=%d, output phase %.5f)", g.name, bits[0], bits[1], bits[2], KIND[kinds[0]], KIND[kinds[1]], KIND[kinds[2]], got, want, lam, t32tod(lwePhase(out, K->sk->lwe_key))));
                // exact prediction of the rounded phase of the internal combination(s)
                int ties = 0;
                if (g.arity == 2) { int p = predict_p(K, g.c8, g.ka, in[0], g.kb, in[1], &ties); bool plus = p < K->N;
                    if (!ties && plus != (want == 1)) violation(key, fmt("%s: rounded phase p=%d of the internal combination lies in the half circle of %d, truth table says %d", g.name, p, plus, want));
                    int dist = std::min(std::min(p, 2 * K->N - p), std::abs(p - K->N)); stat_min(fmt("p_boundary_distance_lambda%d", lam), dist); }
                else if (g.arity == 3) { int p1 = predict_p(K, -1, 1, in[0], 1, in[1], &ties), p2 = predict_p(K, -1, -1, in[0], 1, in[2], &ties);
                    bool u1 = p1 < K->N, u2 = p2 < K->N; if (!ties && ((u1 != (bits[0] & bits[1])) || (u2 != ((1 - bits[0]) & bits[2])))) violation(key, fmt("MUX: internal rounded phases p1=%d p2=%d contradict AND(a,b)=%d, AND(not a,c)=%d", p1, p2, bits[0] & bits[1], (1 - bits[0]) & bits[2])); }
                // output of a bootstrapped gate is itself admissible (phase within 1/32 of +-1/8)
                if (g.boots) { int64_t e = ref::sdiff(lwePhase(out, K->sk->lwe_key), want ? MU8 : -MU8); if (e < 0) e = -e; stat_max(fmt("output_error_lambda%d", lam), (double)e / 4294967296.0); if (e >= (1 << 27)) violation(key, fmt("%s output phase error %.5f >= 1/32: not an admissible input for the next gate", g.name, (double)e / 4294967296.0)); }
                eval(1); bool nontriv = g.boots; if (nontriv) { bool allT = true; for (int q = 0; q < g.arity; q++) if (kinds[q] != 3) allT = false; if (allT) nontriv = false; } if (nontriv) nontrivial(1);
                outcome(mix(fnv(g.name, strlen(g.name)), row * 2 + got));
            }
        }
    }
done:
    sample("lambda=128/seed=0/XOR/row=3/kinds=P+,P-: inputs are fresh encryptions of 1 whose true phase was moved to 1/8 +- (1/32 - 2^-20); decrypt(XOR) == 0 and predicted p in [N,2N)");
    sample("lambda=80/seed=0/MUX/row=5/kinds=F,P-,P+");
    return finish();
}
