// C11 — naive, Karatsuba and monomial multiplications and coefficient-wise operations are exact in Z_{2^32}[X]/(X^N+1).
// Enumerated: every N in {1,2,4,...,2048}; every a in [0,2N) for the monomial routines; every basis pair (X^i, X^j) for the
// bilinear products (N <= Nbasis), extreme/seeded full vectors; coefficient-wise ops with a scalar alphabet.
// Linked with the guard allocator (VF_GUARD=after|before) so the 2N-1 Karatsuba buffer and N=1 are watched.
#include "vf.hpp"
#include "ref.hpp"
#include <tfhe.h>
#include <polynomials.h>
#include <polynomials_arithmetic.h>

using namespace vf;

static void fill(Torus32 *p, int N, int kind, uint64_t seed) { // content alphabet
    uint64_t x = seed * 7919 + kind;
    for (int i = 0; i < N; i++) switch (kind) { case 0: p[i] = INT32_MIN; break; case 1: p[i] = INT32_MAX; break; case 2: p[i] = (i & 1) ? INT32_MIN : INT32_MAX; break; case 3: p[i] = -1; break; default: p[i] = (Torus32)splitmix(x); }
}
static const char *kindname(int k) { static const char *n[] = {"allMIN", "allMAX", "altMAXMIN", "all-1", "seeded"}; return n[k < 4 ? k : 4]; }

static void monomials(int N) {
    TorusPolynomial *src = new_TorusPolynomial(N), *out = new_TorusPolynomial(N);
    IntPolynomial *isrc = new_IntPolynomial(N), *iout = new_IntPolynomial(N);
    std::vector<Torus32> want(N), want2(N);
    for (int a = 0; a < 2 * N; a++) {
        std::string key = fmt("monomial/N=%d/a=%d", N, a);
        if (!take(key)) continue;
        if (deadline()) break;
        current(key);
        int nkinds = 7; // 0..4 contents + basis e0 + basis e_{N-1}
        for (int kind = 0; kind < nkinds; kind++) {
            if (kind < 5) fill(src->coefsT, N, kind, a + 1); else { for (int i = 0; i < N; i++) src->coefsT[i] = 0; src->coefsT[kind == 5 ? 0 : N - 1] = kind == 5 ? 1 : INT32_MIN; }
            for (int i = 0; i < N; i++) { isrc->coefs[i] = src->coefsT[i]; out->coefsT[i] = 0x13579BDF; iout->coefs[i] = 0x2468ACE0; }
            ref::mul_by_xai(want.data(), a, src->coefsT, N);
            torusPolynomialMulByXai(out, a, src);
            if (memcmp(out->coefsT, want.data(), N * 4)) { violation(key, fmt("torusPolynomialMulByXai(a=%d) wrong for N=%d content %d", a, N, kind)); break; }
            for (int i = 0; i < N; i++) want2[i] = (Torus32)((uint32_t)want[i] - (uint32_t)src->coefsT[i]);
            torusPolynomialMulByXaiMinusOne(out, a, src);
            if (memcmp(out->coefsT, want2.data(), N * 4)) { violation(key, fmt("torusPolynomialMulByXaiMinusOne(a=%d) wrong for N=%d content %d", a, N, kind)); break; }
            intPolynomialMulByXaiMinusOne(iout, a, isrc);
            if (memcmp(iout->coefs, want2.data(), N * 4)) { violation(key, fmt("intPolynomialMulByXaiMinusOne(a=%d) wrong for N=%d content %d", a, N, kind)); break; }
            eval(3);
        }
        nontrivial(1);
        outcome(fnv(want.data(), N * 4 > 64 ? 64 : N * 4, a));
    }
    // group law: X^a * X^b = X^(a+b mod 2N), X^N = -1   (all pairs for N <= 64, boundary pairs above)
    {
        std::string key = fmt("monomial-group/N=%d", N);
        if (take(key) && !deadline()) {
            current(key);
            TorusPolynomial *t1 = new_TorusPolynomial(N), *t2 = new_TorusPolynomial(N);
            fill(src->coefsT, N, 4, N);
            std::vector<int> as; if (N <= 64) for (int a = 0; a < 2 * N; a++) as.push_back(a); else as = {0, 1, N - 1, N, N + 1, 2 * N - 1, N / 2, 3 * N / 2};
            bool ok = true;
            for (int a : as) for (int b : as) { if (!ok) break;
                torusPolynomialMulByXai(t1, a, src); torusPolynomialMulByXai(t2, b, t1); torusPolynomialMulByXai(out, (a + b) % (2 * N), src);
                if (memcmp(out->coefsT, t2->coefsT, N * 4)) { violation(key, fmt("X^%d * X^%d != X^%d for N=%d", a, b, (a + b) % (2 * N), N)); ok = false; }
                eval(1); }
            torusPolynomialMulByXai(out, N, src);
            for (int i = 0; i < N && ok; i++) if ((uint32_t)out->coefsT[i] != 0u - (uint32_t)src->coefsT[i]) { violation(key, fmt("X^N != -1 for N=%d", N)); ok = false; }
            nontrivial(as.size() * as.size());
            delete_TorusPolynomial(t1); delete_TorusPolynomial(t2);
        }
    }
    delete_TorusPolynomial(src); delete_TorusPolynomial(out); delete_IntPolynomial(isrc); delete_IntPolynomial(iout);
}

typedef void (*MulFn)(TorusPolynomial *, const IntPolynomial *, const TorusPolynomial *);
struct Mul { const char *name; MulFn fn; int acc; /*0 set, +1 add, -1 sub*/ };
static Mul MULS[] = {{"MultNaive", torusPolynomialMultNaive, 0}, {"MultKaratsuba", torusPolynomialMultKaratsuba, 0}, {"AddMulRKaratsuba", torusPolynomialAddMulRKaratsuba, 1}, {"SubMulRKaratsuba", torusPolynomialSubMulRKaratsuba, -1}};

// operands are write-protected during the call when the guard allocator is linked in: a transient write-and-restore of a const operand faults
extern "C" { int vf_protect(const void *, int) __attribute__((weak)); }
struct RO { const void *p[2]; RO(const void *a, const void *b) : p{a, b} { if (vf_protect) for (auto q : p) if (q) vf_protect(q, 1); } ~RO() { if (vf_protect) for (auto q : p) if (q) vf_protect(q, 0); } };
static bool run_mul(const std::string &key, const Mul &m, int N, const IntPolynomial *a, const TorusPolynomial *b, TorusPolynomial *out, const Torus32 *prod, const char *what) {
    std::vector<Torus32> init(N); uint64_t x = 99; for (int i = 0; i < N; i++) out->coefsT[i] = init[i] = (Torus32)splitmix(x);
    { RO ro(a->coefs, b->coefsT); m.fn(out, a, b); }
    for (int i = 0; i < N; i++) { uint32_t w = m.acc == 0 ? (uint32_t)prod[i] : m.acc > 0 ? (uint32_t)init[i] + (uint32_t)prod[i] : (uint32_t)init[i] - (uint32_t)prod[i];
        if ((uint32_t)out->coefsT[i] != w) { violation(key, fmt("torusPolynomial%s N=%d %s: coefficient %d is 0x%08x, exact value 0x%08x", m.name, N, what, i, (uint32_t)out->coefsT[i], w)); return false; } }
    return true;
}

static void products(int N, int Nbasis) {
    TorusPolynomial *b = new_TorusPolynomial(N), *out = new_TorusPolynomial(N);
    IntPolynomial *a = new_IntPolynomial(N);
    std::vector<Torus32> prod(N);
    {
        // basis pairs: row i is a case; all j for N <= Nbasis, the wrap-around boundary set of j above
        for (int i = 0; i < N; i++) {
            std::string key = fmt("basis/N=%d/i=%d", N, i);
            if (!take(key)) continue;
            if (deadline()) break;
            current(key);
            bool ok = true;
            std::vector<int> js;
            if (N <= Nbasis) for (int j = 0; j < N; j++) js.push_back(j);
            else { if (i % (N / 64) != 0 && i != N - 1 && i != 1) { continue; } for (int j : {0, 1, N / 2 - 1, N / 2, N - 1 - i, N - i, N - 2, N - 1}) if (j >= 0 && j < N) js.push_back(j); }
            for (int ca = 0; ca < 2 && ok; ca++) for (int j : js) { if (!ok) break;
                for (int t = 0; t < N; t++) { a->coefs[t] = 0; b->coefsT[t] = 0; }
                a->coefs[i] = ca ? INT32_MIN : 1; b->coefsT[j] = ca ? INT32_MIN : 1 + j; // distinct values make a misplaced coefficient visible
                ref::negacyclic_mul_fast(prod.data(), a->coefs, b->coefsT, N);
                for (auto &m : MULS) { ok = run_mul(key, m, N, a, b, out, prod.data(), fmt("on basis pair (X^%d,X^%d) coef set %d", i, j, ca).c_str()); eval(1); if (!ok) break; }
            }
            nontrivial(2 * js.size());
            outcome(mix(N, i));
        }
    }
    // full vectors: extreme and seeded
    for (int ka = 0; ka < 6; ka++) for (int kb = 0; kb < 6; kb++) {
        std::string key = fmt("vectors/N=%d/a=%s%d/b=%s%d", N, kindname(ka), ka, kindname(kb), kb);
        if (!take(key)) continue;
        if (deadline()) break;
        current(key);
        fill((Torus32 *)a->coefs, N, ka, 11 + ka); fill(b->coefsT, N, kb, 23 + kb);
        if (ka == 5) for (int t = 0; t < N; t++) a->coefs[t] = (int32_t)(a->coefs[t] % 1024); // small-norm integer polynomial
        ref::negacyclic_mul_fast(prod.data(), a->coefs, b->coefsT, N);
        for (auto &m : MULS) { if (!run_mul(key, m, N, a, b, out, prod.data(), "on full vectors")) break; eval(1); }
        nontrivial(1);
        outcome(fnv(prod.data(), N * 4 > 64 ? 64 : N * 4, N));
    }
    delete_TorusPolynomial(b); delete_TorusPolynomial(out); delete_IntPolynomial(a);
}

static void coefwise(int N) {
    static const int32_t PS[] = {0, 1, -1, 2, -3, 32767, INT32_MIN, INT32_MAX, 0x12345678};
    TorusPolynomial *r = new_TorusPolynomial(N), *p1 = new_TorusPolynomial(N), *p2 = new_TorusPolynomial(N);
    IntPolynomial *ia = new_IntPolynomial(N), *ib = new_IntPolynomial(N);
    for (int k1 = 0; k1 < 5; k1++) for (int k2 = 0; k2 < 5; k2++) {
        std::string key = fmt("coefwise/N=%d/c1=%d/c2=%d", N, k1, k2);
        if (!take(key)) continue;
        if (deadline()) break;
        current(key);
        fill(p1->coefsT, N, k1, 5); fill(p2->coefsT, N, k2, 6);
        std::vector<uint32_t> A(N), B(N), R0(N); for (int i = 0; i < N; i++) { A[i] = p1->coefsT[i]; B[i] = p2->coefsT[i]; }
        uint64_t x = 4242; for (int i = 0; i < N; i++) R0[i] = (uint32_t)splitmix(x);
        auto setr = [&]() { for (int i = 0; i < N; i++) r->coefsT[i] = (Torus32)R0[i]; };
        auto chk = [&](const char *name, std::function<uint32_t(int)> f) -> bool { for (int i = 0; i < N; i++) if ((uint32_t)r->coefsT[i] != f(i)) { violation(key, fmt("%s wrong at coefficient %d (N=%d)", name, i, N)); return false; } eval(1); return true; };
        bool ok = true;
        setr(); torusPolynomialClear(r); ok = ok && chk("torusPolynomialClear", [&](int) { return 0u; });
        setr(); torusPolynomialCopy(r, p1); ok = ok && chk("torusPolynomialCopy", [&](int i) { return A[i]; });
        setr(); torusPolynomialAdd(r, p1, p2); ok = ok && chk("torusPolynomialAdd", [&](int i) { return A[i] + B[i]; });
        setr(); torusPolynomialSub(r, p1, p2); ok = ok && chk("torusPolynomialSub", [&](int i) { return A[i] - B[i]; });
        setr(); torusPolynomialAddTo(r, p2); ok = ok && chk("torusPolynomialAddTo", [&](int i) { return R0[i] + B[i]; });
        setr(); torusPolynomialSubTo(r, p2); ok = ok && chk("torusPolynomialSubTo", [&](int i) { return R0[i] - B[i]; });
        for (int32_t p : PS) { if (!ok) break; uint32_t up = (uint32_t)p;
            setr(); torusPolynomialAddMulZ(r, p1, p, p2); ok = ok && chk("torusPolynomialAddMulZ", [&](int i) { return A[i] + up * B[i]; });
            setr(); torusPolynomialSubMulZ(r, p1, p, p2); ok = ok && chk("torusPolynomialSubMulZ", [&](int i) { return A[i] - up * B[i]; });
            setr(); torusPolynomialAddMulZTo(r, p, p2); ok = ok && chk("torusPolynomialAddMulZTo", [&](int i) { return R0[i] + up * B[i]; });
            setr(); torusPolynomialSubMulZTo(r, p, p2); ok = ok && chk("torusPolynomialSubMulZTo", [&](int i) { return R0[i] - up * B[i]; }); }
        if (memcmp(p1->coefsT, A.data(), N * 4) || memcmp(p2->coefsT, B.data(), N * 4)) violation(key, "an input polynomial was modified by a coefficient-wise operation");
        // int variants
        for (int i = 0; i < N; i++) { ia->coefs[i] = (int32_t)R0[i]; ib->coefs[i] = (int32_t)B[i]; }
        intPolynomialAddTo(ia, ib); for (int i = 0; i < N; i++) if ((uint32_t)ia->coefs[i] != R0[i] + B[i]) { violation(key, "intPolynomialAddTo wrong"); break; }
        intPolynomialCopy(ia, ib); if (memcmp(ia->coefs, ib->coefs, N * 4)) violation(key, "intPolynomialCopy wrong");
        intPolynomialClear(ia); for (int i = 0; i < N; i++) if (ia->coefs[i]) { violation(key, "intPolynomialClear wrong"); break; }
        eval(3); nontrivial(1);
    }
    delete_TorusPolynomial(r); delete_TorusPolynomial(p1); delete_TorusPolynomial(p2); delete_IntPolynomial(ia); delete_IntPolynomial(ib);
}

// aliased arguments, wherever the API does not forbid them (Copy, Add, Sub, MulByXai*, MultNaive assert result != operand and are left out):
// the result must be the value-semantics result computed from the operands as they were before the call.
static void aliased(int N) {
    static const int32_t PS[] = {0, 1, -1, 2, -3, 32767, INT32_MIN, INT32_MAX, 0x12345678};
    TorusPolynomial *r = new_TorusPolynomial(N), *q = new_TorusPolynomial(N); IntPolynomial *ia = new_IntPolynomial(N);
    for (int kind = 0; kind < 6; kind++) {
        std::string key = fmt("aliased/N=%d/content=%s%d", N, kindname(kind), kind);
        if (!take(key)) continue; if (deadline()) break; current(key);
        std::vector<uint32_t> R0(N), Q0(N); fill((Torus32 *)R0.data(), N, kind, 31 + kind); fill((Torus32 *)Q0.data(), N, 4, 77 + kind);
        auto set = [&]() { memcpy(r->coefsT, R0.data(), N * 4); memcpy(q->coefsT, Q0.data(), N * 4); };
        auto chk = [&](const char *name, std::function<uint32_t(int)> f) -> bool { for (int i = 0; i < N; i++) if ((uint32_t)r->coefsT[i] != f(i)) { violation(key, fmt("%s wrong at coefficient %d (N=%d): 0x%08x, value semantics give 0x%08x", name, i, N, (uint32_t)r->coefsT[i], f(i))); return false; } eval(1); return true; };
        bool ok = true;
        set(); torusPolynomialAddTo(r, r); ok = ok && chk("torusPolynomialAddTo(r, r)", [&](int i) { return 2 * R0[i]; });
        set(); torusPolynomialSubTo(r, r); ok = ok && chk("torusPolynomialSubTo(r, r)", [&](int) { return 0u; });
        for (int32_t p : PS) { if (!ok) break; uint32_t up = (uint32_t)p;
            set(); torusPolynomialAddMulZ(r, r, p, q); ok = ok && chk("torusPolynomialAddMulZ(r, r, p, q)", [&](int i) { return R0[i] + up * Q0[i]; });
            set(); torusPolynomialAddMulZ(r, q, p, r); ok = ok && chk("torusPolynomialAddMulZ(r, q, p, r)", [&](int i) { return Q0[i] + up * R0[i]; });
            set(); torusPolynomialAddMulZ(r, r, p, r); ok = ok && chk("torusPolynomialAddMulZ(r, r, p, r)", [&](int i) { return R0[i] + up * R0[i]; });
            set(); torusPolynomialAddMulZ(r, q, p, q); ok = ok && chk("torusPolynomialAddMulZ(r, q, p, q)", [&](int i) { return Q0[i] + up * Q0[i]; });
            set(); torusPolynomialSubMulZ(r, r, p, q); ok = ok && chk("torusPolynomialSubMulZ(r, r, p, q)", [&](int i) { return R0[i] - up * Q0[i]; });
            set(); torusPolynomialSubMulZ(r, q, p, r); ok = ok && chk("torusPolynomialSubMulZ(r, q, p, r)", [&](int i) { return Q0[i] - up * R0[i]; });
            set(); torusPolynomialSubMulZ(r, r, p, r); ok = ok && chk("torusPolynomialSubMulZ(r, r, p, r)", [&](int i) { return R0[i] - up * R0[i]; });
            set(); torusPolynomialAddMulZTo(r, p, r); ok = ok && chk("torusPolynomialAddMulZTo(r, p, r)", [&](int i) { return R0[i] + up * R0[i]; });
            set(); torusPolynomialSubMulZTo(r, p, r); ok = ok && chk("torusPolynomialSubMulZTo(r, p, r)", [&](int i) { return R0[i] - up * R0[i]; });
            if (memcmp(q->coefsT, Q0.data(), N * 4)) { violation(key, "the non-aliased operand was modified"); ok = false; } }
        // Karatsuba family with the torus operand as result: b := a*b, b += a*b, b -= a*b
        for (int ka = 0; ka < 3 && ok; ka++) { std::vector<Torus32> prod(N); uint64_t x = 5 + ka;
            for (int i = 0; i < N; i++) ia->coefs[i] = ka == 0 ? (i == 1 % N ? 1 : 0) : ka == 1 ? (int32_t)(splitmix(x) % 1024) - 512 : (int32_t)splitmix(x);
            ref::negacyclic_mul_fast(prod.data(), ia->coefs, (const Torus32 *)R0.data(), N);
            set(); torusPolynomialMultKaratsuba(r, ia, r); ok = ok && chk("torusPolynomialMultKaratsuba(b, a, b)", [&](int i) { return (uint32_t)prod[i]; });
            set(); torusPolynomialAddMulRKaratsuba(r, ia, r); ok = ok && chk("torusPolynomialAddMulRKaratsuba(b, a, b)", [&](int i) { return R0[i] + (uint32_t)prod[i]; });
            set(); torusPolynomialSubMulRKaratsuba(r, ia, r); ok = ok && chk("torusPolynomialSubMulRKaratsuba(b, a, b)", [&](int i) { return R0[i] - (uint32_t)prod[i]; }); }
        for (int i = 0; i < N; i++) ia->coefs[i] = (int32_t)R0[i];
        intPolynomialAddTo(ia, ia); for (int i = 0; i < N && ok; i++) if ((uint32_t)ia->coefs[i] != 2 * R0[i]) { violation(key, "intPolynomialAddTo(a, a) wrong"); ok = false; }
        eval(1); nontrivial(1); outcome(mix(N, kind + 1000));
    }
    delete_TorusPolynomial(r); delete_TorusPolynomial(q); delete_IntPolynomial(ia);
}

// sizes above every shipped parameter set: the products stay exact (4 full-vector pairs, 3 spikes; all four product routines)
static void large(int N) {
    TorusPolynomial *b = new_TorusPolynomial(N), *out = new_TorusPolynomial(N); IntPolynomial *a = new_IntPolynomial(N); std::vector<Torus32> prod(N);
    for (int c = 0; c < 7; c++) {
        std::string key = fmt("large/N=%d/content=%d", N, c);
        if (!take(key)) continue; if (deadline()) break; current(key);
        if (c < 4) { fill((Torus32 *)a->coefs, N, c == 0 ? 4 : c == 1 ? 2 : c == 2 ? 4 : 1, 3 + c); if (c == 2) for (int t = 0; t < N; t++) a->coefs[t] %= 1024; fill(b->coefsT, N, c == 3 ? 0 : 4, 9 + c); }
        else { for (int t = 0; t < N; t++) { a->coefs[t] = 0; b->coefsT[t] = 0; } int i = c == 4 ? 0 : c == 5 ? N - 1 : N / 2 + 1, j = c == 4 ? N - 1 : c == 5 ? N - 1 : N / 2; a->coefs[i] = c == 6 ? INT32_MIN : 3; b->coefsT[j] = 0x12345678; }
        ref::negacyclic_mul_fast(prod.data(), a->coefs, b->coefsT, N);
        for (auto &m : MULS) { if (!run_mul(key, m, N, a, b, out, prod.data(), "on large polynomials")) break; eval(1); }
        nontrivial(1); outcome(fnv(prod.data(), 64, N + c));
    }
    delete_TorusPolynomial(b); delete_TorusPolynomial(out); delete_IntPolynomial(a);
}

int main(int argc, char **argv) {
    init(argc, argv);
    int Nbasis = (int)opti("nbasis", quick() ? 128 : 512);
    int Nmax = (int)opti("nmax", 2048);
    for (int N = 1; N <= Nmax; N *= 2) { monomials(N); coefwise(N); aliased(N); products(N, Nbasis); }
    for (int N : {4096, 8192}) large(N);
    sample("N=8 a=11: X^a*p, (X^a-1)*p for 7 contents (MIN, MAX, alternating, -1, seeded, e0, MIN*e_{N-1}) vs explicit index arithmetic");
    sample(fmt("N<=%d: all basis pairs (X^i, c*X^j), c in {1+j, INT32_MIN}: Naive/Karatsuba/AddMulR/SubMulR vs exact negacyclic product", Nbasis));
    sample("aliased/N=8: AddMulZ(r,q,p,r), SubMulZ(r,r,p,r), AddMulZTo(r,p,r), AddTo(r,r), MultKaratsuba(b,a,b), AddMulRKaratsuba(b,a,b), ... for 9 scalars: the result equals the value-semantics result of the operands before the call");
    return finish();
}
