// C17 — the exported cloud key contains only public evaluation material.
#include "vf.hpp"
#include <map>
#include <tfhe.h>
#include <tfhe_io.h>
#include <tfhe_generic_streams.h>
#include <numeric_functions.h>
#include <sstream>
#include <fcntl.h>
#include <dlfcn.h>
using namespace vf;

// ---- environment monitor: while armed, the import must not reach any of these
static volatile int g_armed = 0; static volatile long g_hits = 0; static char g_what[64];
#define MON(name) do { if (g_armed) { g_hits++; strncpy(g_what, name, 63); } } while (0)
extern "C" {
int open(const char *p, int fl, ...) { MON("open"); static int (*real)(const char *, int, ...) = (int (*)(const char *, int, ...))dlsym(RTLD_NEXT, "open"); va_list ap; va_start(ap, fl); int m = va_arg(ap, int); va_end(ap); return real(p, fl, m); }
int open64(const char *p, int fl, ...) { MON("open64"); static int (*real)(const char *, int, ...) = (int (*)(const char *, int, ...))dlsym(RTLD_NEXT, "open64"); va_list ap; va_start(ap, fl); int m = va_arg(ap, int); va_end(ap); return real(p, fl, m); }
FILE *fopen(const char *p, const char *m) { MON("fopen"); static FILE *(*real)(const char *, const char *) = (FILE * (*)(const char *, const char *)) dlsym(RTLD_NEXT, "fopen"); return real(p, m); }
FILE *fopen64(const char *p, const char *m) { MON("fopen64"); static FILE *(*real)(const char *, const char *) = (FILE * (*)(const char *, const char *)) dlsym(RTLD_NEXT, "fopen64"); return real(p, m); }
ssize_t read(int fd, void *b, size_t n) { MON("read"); static ssize_t (*real)(int, void *, size_t) = (ssize_t(*)(int, void *, size_t))dlsym(RTLD_NEXT, "read"); return real(fd, b, n); }
ssize_t getrandom(void *b, size_t n, unsigned f) { MON("getrandom"); static ssize_t (*real)(void *, size_t, unsigned) = (ssize_t(*)(void *, size_t, unsigned))dlsym(RTLD_NEXT, "getrandom"); return real(b, n, f); }
int rand(void) { MON("rand"); static int (*real)(void) = (int (*)(void))dlsym(RTLD_NEXT, "rand"); return real(); }
}

struct PSet { const char *name; int lam; int n, k, l, Bgbit, t, basebit; int noiseless = 0; };
static const PSet SETS[] = {{"default-128", 128, 0, 0, 0, 0, 0, 0}, {"default-80", 80, 0, 0, 0, 0, 0, 0}, {"small-n8-k1", 0, 8, 1, 2, 10, 4, 2}, {"small-n9-k2", 0, 9, 2, 3, 7, 3, 3}, {"small-n8-k2", 0, 8, 2, 2, 8, 2, 1}, {"small-n9-k1", 0, 9, 1, 1, 16, 8, 2}, {"noiseless-n8-k1", 0, 8, 1, 2, 10, 4, 2, 1}, {"noiseless-n9-k2", 0, 9, 2, 3, 7, 3, 3, 1}};

static std::string bytes_of(bool file, const std::function<void(FILE *)> &ff, const std::function<void(std::ostream &)> &fs) {
    if (file) { char *b = nullptr; size_t len = 0; FILE *F = open_memstream(&b, &len); ff(F); fclose(F); std::string r(b, len); free(b); return r; }
    std::ostringstream os; fs(os); return os.str();
}
static bool contains(const std::string &hay, const std::string &needle) { return needle.size() >= 16 && memmem(hay.data(), hay.size(), needle.data(), needle.size()) != nullptr; }

// every encoding of a 0/1 vector the library uses or could plausibly emit
static std::vector<std::pair<std::string, std::string>> encodings(const std::vector<int32_t> &bits) {
    std::vector<std::pair<std::string, std::string>> e; size_t n = bits.size();
    auto i32 = [&](const std::vector<int32_t> &v) { return std::string((const char *)v.data(), v.size() * 4); };
    e.push_back({"int32 array as stored", i32(bits)});
    std::vector<int32_t> rev(bits.rbegin(), bits.rend()); e.push_back({"int32 array reversed", i32(rev)});
    std::vector<int32_t> neg(n); for (size_t i = 0; i < n; i++) neg[i] = -bits[i]; e.push_back({"int32 array negated", i32(neg)});
    std::vector<int32_t> nrev(neg.rbegin(), neg.rend()); e.push_back({"int32 array reversed and negated (extraction order)", i32(nrev)});
    std::string b8(n, 0); for (size_t i = 0; i < n; i++) b8[i] = (char)bits[i]; e.push_back({"one byte per bit", b8});
    std::string pl((n + 7) / 8, 0), pm((n + 7) / 8, 0); for (size_t i = 0; i < n; i++) if (bits[i]) { pl[i / 8] |= (char)(1 << (i % 8)); pm[i / 8] |= (char)(0x80 >> (i % 8)); }
    if (n % 8) { pl.resize(n / 8); pm.resize(n / 8); } // only whole bytes are searched
    e.push_back({"bits packed LSB first", pl}); e.push_back({"bits packed MSB first", pm});
    std::string asc(n, '0'); for (size_t i = 0; i < n; i++) asc[i] = bits[i] ? '1' : '0'; e.push_back({"ASCII 0/1", asc});
    return e;
}

static TFheGateBootstrappingSecretKeySet *gen_keys(const PSet &P, int k, TFheGateBootstrappingParameterSet *&ps) {
            uint32_t sd[3] = {(uint32_t)S().seed, (uint32_t)k, (uint32_t)fnv(P.name, strlen(P.name))}; tfhe_random_generator_setSeed(sd, 3);
            if (P.lam) ps = new_default_gate_bootstrapping_parameters(P.lam);
            else { LweParams *lp = new_LweParams(P.n, P.noiseless ? 0. : 1e-5, 0.01); TLweParams *tp = new_TLweParams(1024, P.k, P.noiseless ? 0. : 1e-9, 0.01); TGswParams *gp = new_TGswParams(P.l, P.Bgbit, tp); ps = new TFheGateBootstrappingParameterSet(P.t, P.basebit, lp, gp); }
            TFheGateBootstrappingSecretKeySet *sk = new_random_gate_bootstrapping_secret_keyset(ps);
            return sk;
}
// order: 0 = cloud exported before the secret key set, 1 = secret key set exported first (the README order)
static void audit(const std::string &key, const PSet &P, TFheGateBootstrappingParameterSet *ps, TFheGateBootstrappingSecretKeySet *sk, bool file, int order, std::string *cloud_out = nullptr) {
            const int n = ps->in_out_params->n, N = ps->tgsw_params->tlwe_params->N, kk = ps->tgsw_params->tlwe_params->k, l = ps->tgsw_params->l, t = ps->ks_t, bb = ps->ks_basebit;
            std::string cloud, secret;
            auto ec = [&] { cloud = bytes_of(file, [&](FILE *F) { export_tfheGateBootstrappingCloudKeySet_toFile(F, &sk->cloud); }, [&](std::ostream &o) { export_tfheGateBootstrappingCloudKeySet_toStream(o, &sk->cloud); }); };
            auto es = [&] { secret = bytes_of(file, [&](FILE *F) { export_tfheGateBootstrappingSecretKeySet_toFile(F, sk); }, [&](std::ostream &o) { export_tfheGateBootstrappingSecretKeySet_toStream(o, sk); }); };
            if (order) { es(); ec(); } else { ec(); es(); }
            if (cloud_out) *cloud_out = cloud;
            std::string pset = bytes_of(file, [&](FILE *F) { export_tfheGateBootstrappingParameterSet_toFile(F, ps); }, [&](std::ostream &o) { export_tfheGateBootstrappingParameterSet_toStream(o, ps); });
            // (1) size determined by the parameters
            if (cloud.compare(0, pset.size(), pset)) { violation(key, "cloud export does not start with the parameter-set export"); return; }
            const std::string endks = "-----END LWEKSPARAMS-----\n"; size_t e = cloud.find(endks, pset.size());
            if (e == std::string::npos || cloud.compare(pset.size(), 27, "-----BEGIN LWEKSPARAMS-----")) { violation(key, "no key-switch parameter section after the parameter set"); return; }
            size_t kssec = e + endks.size() - pset.size();
            std::string sec = cloud.substr(pset.size(), kssec);
            // the section must carry exactly the three public integers (basebit, n = kN, t) - whatever the spacing of the text format
            { std::map<std::string, long> kv; std::vector<std::string> lines; size_t q = 0; while (q < sec.size()) { size_t nl = sec.find('\n', q); if (nl == std::string::npos) nl = sec.size(); lines.push_back(sec.substr(q, nl - q)); q = nl + 1; }
              bool okfmt = lines.size() == 5 && lines[0] == "-----BEGIN LWEKSPARAMS-----" && lines[4] == "-----END LWEKSPARAMS-----";
              for (size_t i = 1; okfmt && i + 1 < lines.size(); i++) { size_t c = lines[i].find(": "); if (c == std::string::npos) { okfmt = false; break; } char *endp = nullptr; std::string val = lines[i].substr(c + 2); long v = strtol(val.c_str(), &endp, 10); while (endp && *endp == ' ') endp++; if (!endp || *endp) okfmt = false; kv[lines[i].substr(0, c)] = v; }
              if (!okfmt || kv.size() != 3 || kv["basebit"] != bb || kv["n"] != (long)kk * N || kv["t"] != t) { violation(key, "key-switch parameter section is not the three public integers (basebit, n=kN, t): " + sec.substr(0, 120)); return; } }
            uint64_t want = pset.size() + kssec + (4 + 8) + (uint64_t)kk * N * t * (1u << bb) * (n + 1) * 4 + (4 + 8) + (uint64_t)n * (kk + 1) * l * (kk + 1) * N * 4;
            if (cloud.size() != want) { violation(key, fmt("cloud export has %zu bytes, the parameters determine %llu", cloud.size(), (unsigned long long)want)); return; }
            // (2) strict prefix of the secret export; remainder = exactly the two key sections
            if (secret.size() <= cloud.size() || secret.compare(0, cloud.size(), cloud)) { violation(key, "cloud export is not a strict prefix of the secret-key-set export of the same keys"); return; }
            std::string rest = secret.substr(cloud.size()); std::string wantrest; int32_t u1 = LWE_KEY_TYPE_UID, u2 = TGSW_KEY_TYPE_UID;
            wantrest.append((char *)&u1, 4); wantrest.append((char *)sk->lwe_key->key, n * 4); wantrest.append((char *)&u2, 4); for (int i = 0; i < kk; i++) wantrest.append((char *)sk->tgsw_key->key[i].coefs, N * 4);
            if (rest != wantrest) { violation(key, fmt("secret export minus cloud export is %zu bytes, expected exactly the LWE key section and the ring key section (%zu bytes)", rest.size(), wantrest.size())); return; }
            // (3) no secret material in any encoding
            std::vector<int32_t> lwebits(sk->lwe_key->key, sk->lwe_key->key + n);
            std::vector<std::vector<int32_t>> secrets = {lwebits}; std::vector<std::string> names = {"LWE secret key"};
            std::vector<int32_t> allring; for (int i = 0; i < kk; i++) { std::vector<int32_t> p(sk->tgsw_key->key[i].coefs, sk->tgsw_key->key[i].coefs + N); secrets.push_back(p); names.push_back(fmt("ring secret key polynomial %d", i)); allring.insert(allring.end(), p.begin(), p.end()); }
            if (kk > 1) { secrets.push_back(allring); names.push_back("extracted (concatenated) ring key"); }
            int searched = 0, found_in_secret = 0;
            for (size_t s = 0; s < secrets.size(); s++) for (auto &en : encodings(secrets[s])) { if (en.second.size() < 16) continue; searched++;
                if (contains(cloud, en.second)) { violation(key, names[s] + " found in the cloud export, encoding: " + en.first); return; }
                if (contains(secret, en.second)) found_in_secret++; }
            // windows of the keys (a partial leak): every 64-coefficient window of each ring key polynomial / 16-coefficient window of the LWE key, as stored
            for (size_t s = 0; s < secrets.size(); s++) { size_t w = s == 0 ? (n >= 16 ? 16 : 0) : 64; if (!w) continue; for (size_t o = 0; o + w <= secrets[s].size(); o += w / 2) { std::string pat((const char *)&secrets[s][o], w * 4); searched++; if (contains(cloud, pat)) { violation(key, fmt("%zu consecutive coefficients of the %s (offset %zu) found in the cloud export", w, names[s].c_str(), o)); return; } } }
            if (found_in_secret < 1 + kk) { violation(key, "vacuity guard: the key search does not find the keys in the secret-key-set export either"); return; }
            stat_max("patterns_searched", searched);
            // (4) import neither requires nor produces secret material: generator untouched, no file/entropy access, object is a cloud key set
            std::stringstream snap; snap << generator; std::string before = snap.str();
            TFheGateBootstrappingCloudKeySet *ck;
            if (file) { FILE *F = fmemopen((void *)cloud.data(), cloud.size(), "rb"); g_hits = 0; g_armed = 1; ck = new_tfheGateBootstrappingCloudKeySet_fromFile(F); g_armed = 0; fclose(F); }
            else { std::istringstream is(cloud); g_hits = 0; g_armed = 1; ck = new_tfheGateBootstrappingCloudKeySet_fromStream(is); g_armed = 0; if (!is.good() && !is.eof()) { violation(key, "import of the cloud export leaves the stream failed"); return; } }
            if (g_hits) { violation(key, fmt("importing the cloud key reached %s() %ld time(s): it must read nothing but the given stream", g_what, (long)g_hits)); return; }
            std::stringstream snap2; snap2 << generator; if (snap2.str() != before) { violation(key, "importing the cloud key advanced the library random generator"); return; }
            if (sizeof(TFheGateBootstrappingCloudKeySet) != 3 * sizeof(void *)) { violation(key, "the cloud key structure holds more than params, bk, bkFFT"); return; }
            if (!ck || !ck->bk || !ck->bkFFT || !ck->params) { violation(key, "imported cloud key incomplete"); return; }
            // the imported cloud key evaluates: one NAND decrypts correctly with the original secret key
            LweSample *a = new_gate_bootstrapping_ciphertext(ps), *b = new_gate_bootstrapping_ciphertext(ps), *r = new_gate_bootstrapping_ciphertext(ps);
            if (P.lam) { bootsSymEncrypt(a, 1, sk); bootsSymEncrypt(b, 1, sk); bootsNAND(r, a, b, ck); if (bootsSymDecrypt(r, sk) != 0) { violation(key, "NAND(1,1) under the imported cloud key decrypts to 1"); return; } }
            // (5) the exported rows must not determine the keys by linear algebra: modulo 2 every key-switching row and every coefficient of
            //     every bootstrapping-key row is a linear equation lsb(b) = <lsb(a), key> + lsb(noise) (the message part is even); with real noise an
            //     over-determined system (unknowns + 64 equations) is inconsistent with probability 1 - 2^-64; a consistent one hands out the key
            {
                // a row whose mask is all zero carries its message - a multiple of a secret key coefficient - in clear, whatever the noise parameter
                { const LweKeySwitchKey *ks0 = ck->bkFFT->ks; int base0 = 1 << bb; for (int i = 0; i < kk * N; i++) for (int j = 0; j < t; j++) for (int h = 1; h < base0; h++) { const LweSample *r = &ks0->ks[i][j][h]; bool z = true; for (int q = 0; q < n; q++) if (r->a[q]) z = false;
                      if (z && n >= 4) { violation(key, fmt("key-switching row (i=%d, j=%d, h=%d) of the exported cloud key has an all-zero mask: its body is h*s_i/base^(j+1) in clear (ring key coefficient %d readable from public data)", i, j, h, i)); return; } }
                  for (int i = 0; i < n; i++) for (int p = 0; p < (kk + 1) * l; p++) { const TLweSample *row = &ck->bk->bk[i].all_sample[p]; int nzpolys = 0; for (int q = 0; q < kk; q++) { int nzc = 0; for (int m = 0; m < N; m++) if (row->a[q].coefsT[m]) nzc++; if (nzc > N / 2) nzpolys++; }
                      if (nzpolys < kk) { violation(key, fmt("bootstrapping-key row %d of LWE key bit %d in the exported cloud key has an all-zero mask polynomial: the row shows s_i times the gadget in clear", p, i)); return; } } }
                if (P.noiseless) { eval(1); nontrivial(1); outcome(mix(fnv(cloud.data() + pset.size() + kssec, 64), cloud.size())); return; }   // without noise the rows are linear equations by construction: no linear-attack oracle
                auto consistent = [](std::vector<std::vector<uint64_t>> &rows, int unknowns) { // augmented bit rows: bit `unknowns` = right-hand side
                    size_t r = 0; int W = (unknowns + 64) / 64;
                    for (int c = 0; c < unknowns && r < rows.size(); c++) { size_t piv = r; while (piv < rows.size() && !((rows[piv][c / 64] >> (c % 64)) & 1)) piv++; if (piv == rows.size()) continue; std::swap(rows[r], rows[piv]);
                        for (size_t q = 0; q < rows.size(); q++) if (q != r && ((rows[q][c / 64] >> (c % 64)) & 1)) for (int w = 0; w < W; w++) rows[q][w] ^= rows[r][w]; r++; }
                    for (size_t q = r; q < rows.size(); q++) if ((rows[q][unknowns / 64] >> (unknowns % 64)) & 1) return false;   // 0 = 1
                    return true; };
                const LweKeySwitchKey *ks = ck->bkFFT->ks; int base = 1 << bb; int W = (n + 64) / 64; std::vector<std::vector<uint64_t>> eq;
                for (int i = 0; i < kk * N && (int)eq.size() < n + 64; i++) for (int j = 0; j < t && (int)eq.size() < n + 64; j++) for (int h = 1; h < base && (int)eq.size() < n + 64; h++) { if ((j + 1) * bb >= 32) continue;
                    const LweSample *r = &ks->ks[i][j][h]; std::vector<uint64_t> row(W, 0); for (int q = 0; q < n; q++) if (r->a[q] & 1) row[q / 64] |= 1ull << (q % 64); if (r->b & 1) row[n / 64] |= 1ull << (n % 64); eq.push_back(row); }
                if ((int)eq.size() >= n + 64 && consistent(eq, n)) { violation(key, fmt("the %d key-switching rows of the exported cloud key form a CONSISTENT linear system modulo 2 in the %d bits of the LWE secret key: the rows carry no noise in their low bit and the key follows from public data", (int)eq.size(), n)); return; }
                int U = kk * N, W2 = (U + 64) / 64; std::vector<std::vector<uint64_t>> eq2; const LweBootstrappingKey *bkk = ck->bk;
                for (int i = 0; i < n && (int)eq2.size() < U + 64; i++) for (int p = 0; p < (kk + 1) * l && (int)eq2.size() < U + 64; p++) { if ((p % l + 1) * ps->tgsw_params->Bgbit >= 32) continue; const TLweSample *row = &bkk->bk[i].all_sample[p];
                    for (int jj = 0; jj < N && (int)eq2.size() < U + 64; jj += 5) { std::vector<uint64_t> r2(W2, 0);
                        for (int q = 0; q < kk; q++) for (int m = 0; m < N; m++) if (row->a[q].coefsT[(jj - m + N) % N] & 1) r2[(q * N + m) / 64] |= 1ull << ((q * N + m) % 64);
                        if (row->b->coefsT[jj] & 1) r2[U / 64] |= 1ull << (U % 64); eq2.push_back(r2); } }
                if ((int)eq2.size() >= U + 64 && consistent(eq2, U)) { violation(key, fmt("%d coefficient equations of the exported bootstrapping-key rows form a CONSISTENT linear system modulo 2 in the %d bits of the ring secret key: the key follows from public data", (int)eq2.size(), U)); return; }
                stat_max("linear_attack_equations", (double)(eq.size() + eq2.size()));
            }
            eval(1); nontrivial(1); outcome(mix(fnv(cloud.data() + pset.size() + kssec, 64), cloud.size()));
}
int main(int argc, char **argv) {
    init(argc, argv);
    int K = (int)opti("K", quick() ? 1 : 3);
    for (const PSet &P : SETS) for (int k = 0; k < K; k++) for (int file = 0; file < 2; file++) {
        if (quick() && P.lam == 80 && file == 0) continue;
        std::string key = fmt("cloud/%s/seed=%d/%s", P.name, k, file ? "FILE" : "stream");
        if (!take(key)) continue; if (deadline()) break; current(key);
        Fate f = forked([&] {
            TFheGateBootstrappingParameterSet *ps = nullptr; TFheGateBootstrappingSecretKeySet *sk = gen_keys(P, k, ps);
            std::string c0, c1; audit(key, P, ps, sk, file, 0, &c0); audit(key, P, ps, sk, file, 1, &c1);
            if (c0 != c1) violation(key, "the cloud export differs depending on whether the secret key set was exported before it");
        }, 600);
        if (f.died()) violation(key, "process died: " + fate_str(f) + " " + f.text.substr(0, 300));
    }
    // histories: key sets of two different parameter sets exported by one process, in both orders
    for (int a = 2; a < 6; a++) for (int b = 2; b < 6; b++) { if (a == b) continue;
        std::string key = fmt("sequence/%s-then-%s", SETS[a].name, SETS[b].name);
        if (!take(key)) continue; if (deadline()) break; current(key);
        Fate f = forked([&] {
            TFheGateBootstrappingParameterSet *pa = nullptr, *pb = nullptr; TFheGateBootstrappingSecretKeySet *ka = gen_keys(SETS[a], 7, pa), *kb = gen_keys(SETS[b], 8, pb);
            std::string a0, a1; audit(key, SETS[a], pa, ka, true, 1, &a0); audit(key, SETS[b], pb, kb, false, 0); audit(key, SETS[b], pb, kb, true, 1); audit(key, SETS[a], pa, ka, false, 0, &a1);
            if (a0 != a1) violation(key, "the cloud export of the first key set changed after another key set was exported");
        }, 600);
        if (f.died()) violation(key, "process died: " + fate_str(f) + " " + f.text.substr(0, 300));
    }
    // two FILE handles open at the same time (cloud key to one, secret key set to the other, neither closed in between): the cloud file must still be
    // exactly the cloud export.  The LWE dimension is chosen so that a multiple of 65536 (a typical stdio buffer size) falls between the two sizes.
    for (int shape = 0; shape < 1; shape++) {   // (k=1 shapes never straddle a 64 KB boundary: every term of their size is a multiple of 16 KB)
        std::string key = fmt("open-files/shape=%d", shape);
        if (!take(key)) continue; if (deadline()) break; current(key);
        Fate f = forked([&] {
            PSet P = shape == 0 ? PSet{"open-k2", 0, 0, 2, 3, 8, 2, 2} : PSet{"open-k1", 0, 0, 1, 2, 10, 3, 2};
            // sizes from the formula; text sections measured on a probe parameter set
            for (int n = 8; n < 400; n++) { P.n = n; TFheGateBootstrappingParameterSet *ps = nullptr;
                { LweParams *lp = new_LweParams(P.n, 1e-5, 0.01); TLweParams *tp = new_TLweParams(1024, P.k, 1e-9, 0.01); TGswParams *gp = new_TGswParams(P.l, P.Bgbit, tp); ps = new TFheGateBootstrappingParameterSet(P.t, P.basebit, lp, gp); }
                std::ostringstream os; export_tfheGateBootstrappingParameterSet_toStream(os, ps); uint64_t text = os.str().size() + strlen("-----BEGIN LWEKSPARAMS-----\nbasebit:           1\nn:           1\nt:           1\n-----END LWEKSPARAMS-----\n");
                uint64_t cloud = text + 12 + (uint64_t)P.k * 1024 * P.t * (1u << P.basebit) * (n + 1) * 4 + 12 + (uint64_t)n * (P.k + 1) * P.l * (P.k + 1) * 1024 * 4, secret = cloud + 8 + 4 * n + 4 * P.k * 1024;
                if (cloud / 65536 == secret / 65536) continue;
                TFheGateBootstrappingSecretKeySet *sk = nullptr; { TFheGateBootstrappingParameterSet *q = nullptr; sk = gen_keys(P, 3, q); ps = q; }
                std::string wantc = bytes_of(false, nullptr, [&](std::ostream &o) { export_tfheGateBootstrappingCloudKeySet_toStream(o, &sk->cloud); }), wants = bytes_of(false, nullptr, [&](std::ostream &o) { export_tfheGateBootstrappingSecretKeySet_toStream(o, sk); });
                FILE *F1 = tmpfile(), *F2 = tmpfile(); export_tfheGateBootstrappingCloudKeySet_toFile(F1, &sk->cloud); export_tfheGateBootstrappingSecretKeySet_toFile(F2, sk); fflush(F1); fflush(F2);
                auto slurp = [](FILE *F) { std::string r; rewind(F); char buf[65536]; size_t q; while ((q = fread(buf, 1, sizeof buf, F)) > 0) r.append(buf, q); return r; };
                std::string gotc = slurp(F1), gots = slurp(F2); fclose(F1); fclose(F2);
                if (gotc != wantc) { size_t d = 0; while (d < gotc.size() && d < wantc.size() && gotc[d] == wantc[d]) d++; violation(key, fmt("cloud key written to a FILE while a second FILE was open: %zu bytes, differs from the cloud export at byte %zu of %zu (n=%d)", gotc.size(), d, wantc.size(), n)); }
                else if (gots != wants) violation(key, "secret key set written to a second open FILE differs from its export");
                else { std::vector<int32_t> ring(sk->tgsw_key->key[0].coefs, sk->tgsw_key->key[0].coefs + 1024); if (contains(gotc, std::string((const char *)ring.data(), 256))) violation(key, "ring key coefficients found in the cloud file"); }
                eval(1); nontrivial(1); outcome(mix(n, shape)); return; }
            violation(key, "no LWE dimension found for which a 64 KB boundary separates the two export sizes (harness)");
        }, 600);
        if (f.died()) violation(key, "process died: " + fate_str(f) + " " + f.text.substr(0, 300));
    }
    sample("sequence/small-n8-k1-then-small-n9-k2: two key sets exported by one process (secret first, then cloud; FILE and stream), every cloud export audited");
    sample("cloud/default-128/seed=0/FILE: 113 MB export; length formula; strict prefix of the secret export; LWE key (630 bits) and ring key (1024 bits) searched in 8 encodings + 64-coefficient windows");
    sample("cloud/small-n9-k2/seed=0/stream: n=9, N=1024, k=2, l=3, Bgbit=7, t=3, basebit=3");
    return finish();
}
