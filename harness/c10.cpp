// C10 — FFT products equal the exact negacyclic product within 2 units (growing linearly above 2^9), round trip within 1 unit,
// Lagrange-domain operations commute with the transforms.  N = 1024 (the only size the processors implement).
#include "vf.hpp"
#include "ref.hpp"
#include <tfhe.h>
#include <polynomials.h>
#include <polynomials_arithmetic.h>
#include <lagrangehalfc_arithmetic.h>
#include <semaphore.h>

using namespace vf;
static const int N = 1024;

static int64_t maxdiff(const Torus32 *a, const Torus32 *b) { int64_t m = 0; for (int i = 0; i < N; i++) { int64_t d = ref::sdiff(a[i], b[i]); if (d < 0) d = -d; if (d > m) m = d; } return m; }
static int64_t tol_for(int64_t B) { return B <= 512 ? 2 : 2 * B / 512; }

static void int_pattern(int32_t *p, int kind, int64_t B, uint64_t seed) {
    uint64_t x = seed * 31 + kind; uint32_t lfsr = 0xACE1u + (uint32_t)seed;
    for (int i = 0; i < N; i++) switch (kind) {
        case 0: p[i] = (int32_t)B; break; case 1: p[i] = (int32_t)-B; break; case 2: p[i] = (i & 1) ? (int32_t)-B : (int32_t)B; break;
        case 3: p[i] = (i % 64 == 5) ? (int32_t)B : 0; break;                                    // 16 spikes
        case 4: lfsr = (lfsr >> 1) ^ (-(lfsr & 1u) & 0xB400u); p[i] = (lfsr & 1) ? 1 : 0; if (B > 1 && (lfsr & 2)) p[i] = (int32_t)B; break; // sparse binary / two-level
        default: p[i] = (int32_t)((int64_t)(splitmix(x) % (uint64_t)(2 * B + 1)) - B); }
}
static const char *IK[] = {"all+B", "all-B", "alt+-B", "spikes16", "lfsr", "seeded"};
static void torus_pattern(Torus32 *p, int kind, uint64_t seed) {
    uint64_t x = seed * 131 + kind;
    for (int i = 0; i < N; i++) switch (kind) { case 0: p[i] = INT32_MAX; break; case 1: p[i] = INT32_MIN; break; case 2: p[i] = (i & 1) ? INT32_MIN : INT32_MAX; break; case 3: p[i] = (i % 128 == 7) ? INT32_MAX : 0; break; default: p[i] = (Torus32)splitmix(x); }
}
static const char *TK[] = {"allMAX", "allMIN", "altMAXMIN", "spikes", "seeded"};

struct Polys { IntPolynomial *a; TorusPolynomial *b, *r, *r2, *want; LagrangeHalfCPolynomial *L; };

static void basis(Polys &P) {
    int sub = (int)(S().seed & 15);
    struct { int32_t B; Torus32 c; } combos[] = {{1, 1}, {512, INT32_MIN}, {1, INT32_MAX}, {512, 1}, {512, INT32_MAX}, {1, INT32_MIN}};
    int ncombo = quick() ? 2 : 6;
    for (int i = 0; i < N; i++) {
        std::string key = fmt("basis/i=%d", i);
        if (!take(key)) continue;
        if (deadline()) break;
        current(key);
        Fate fate = forked([&] {
        bool ok = true; uint64_t n = 0; int64_t worst = 0;
        for (int cb = 0; cb < ncombo && ok; cb++) for (int j = 0; j < N && ok; j++) {
            if (quick() && !((j & 15) == sub || j < 2 || j >= N - 2 || j == N - 1 - i || j == N - i)) continue;
            memset(P.a->coefs, 0, N * 4); memset(P.b->coefsT, 0, N * 4);
            P.a->coefs[i] = combos[cb].B; P.b->coefsT[j] = combos[cb].c;
            torusPolynomialMultFFT(P.r, P.a, P.b);
            uint32_t v = (uint32_t)combos[cb].B * (uint32_t)combos[cb].c; int pos = i + j; if (pos >= N) { pos -= N; v = 0u - v; }
            for (int t = 0; t < N; t++) { int64_t d = ref::sdiff(P.r->coefsT[t], t == pos ? (Torus32)v : 0); if (d < 0) d = -d; if (d > worst) worst = d;
                if (d > 2) { violation(key, fmt("torusPolynomialMultFFT(%d*X^%d, 0x%08x*X^%d): coefficient %d is off by %lld units (allowed 2)", combos[cb].B, i, (uint32_t)combos[cb].c, j, t, (long long)d)); ok = false; break; } }
            n++;
        }
        eval(n); nontrivial(n); stat_max("basis_error_units", (double)worst); outcome(mix(worst, i & 7));
        }, 120);
        if (fate.died()) violation(key, "process terminated instead of returning the product: " + fate_str(fate) + " " + fate.text.substr(0, 300));
    }
}

static void patterns(Polys &P) {
    static const int64_t BS[] = {1, 64, 512, 32768, 1048576};
    for (int64_t B : BS) for (int ik = 0; ik < 6; ik++) for (int tk = 0; tk < 5; tk++) for (int sd = 0; sd < ((ik == 5 || tk == 4) ? (quick() ? 1 : 3) : 1); sd++) {
        std::string key = fmt("pattern/B=%lld/int=%s/torus=%s/seed=%d", (long long)B, IK[ik], TK[tk], sd);
        if (!take(key)) continue;
        if (deadline()) break;
        current(key);
        Fate fate = forked([&] {
        int_pattern(P.a->coefs, ik, B, sd + S().seed); torus_pattern(P.b->coefsT, tk, sd + S().seed);
        ref::negacyclic_mul_fast(P.want->coefsT, P.a->coefs, P.b->coefsT, N);
        int64_t tol = tol_for(B);
        torusPolynomialMultFFT(P.r, P.a, P.b);
        int64_t d = maxdiff(P.r->coefsT, P.want->coefsT); stat_max(fmt("pattern_error_units_B%lld", (long long)B), (double)d);
        if (d > tol) violation(key, fmt("torusPolynomialMultFFT error %lld units > %lld", (long long)d, (long long)tol));
        // accumulate / subtract variants on a seeded accumulator
        uint64_t x = 5; std::vector<Torus32> acc(N); for (int i = 0; i < N; i++) acc[i] = P.r2->coefsT[i] = (Torus32)splitmix(x);
        torusPolynomialAddMulRFFT(P.r2, P.a, P.b);
        for (int i = 0; i < N; i++) P.r->coefsT[i] = (Torus32)((uint32_t)acc[i] + (uint32_t)P.want->coefsT[i]);
        d = maxdiff(P.r2->coefsT, P.r->coefsT); if (d > tol) violation(key, fmt("torusPolynomialAddMulRFFT error %lld units > %lld", (long long)d, (long long)tol));
        for (int i = 0; i < N; i++) P.r2->coefsT[i] = acc[i];
        torusPolynomialSubMulRFFT(P.r2, P.a, P.b);
        for (int i = 0; i < N; i++) P.r->coefsT[i] = (Torus32)((uint32_t)acc[i] - (uint32_t)P.want->coefsT[i]);
        d = maxdiff(P.r2->coefsT, P.r->coefsT); if (d > tol) violation(key, fmt("torusPolynomialSubMulRFFT error %lld units > %lld", (long long)d, (long long)tol));
        eval(3); nontrivial(1); outcome(mix(fnv(P.want->coefsT, 64), B));
        }, 120);
        if (fate.died()) violation(key, "process terminated instead of returning the product: " + fate_str(fate) + " " + fate.text.substr(0, 300));
    }
}

static void lagrange_ops(Polys &P) {
    LagrangeHalfCPolynomial *A = P.L, *Bq = P.L + 1, *C = P.L + 2, *D = P.L + 3;
    for (int tk = 0; tk < 5; tk++) for (int tk2 = 0; tk2 < 5; tk2++) {
        std::string key = fmt("lagrange/t1=%s/t2=%s", TK[tk], TK[tk2]);
        if (!take(key)) continue;
        if (deadline()) break;
        current(key);
        Fate fate = forked([&] {
        torus_pattern(P.b->coefsT, tk, 3 + S().seed); torus_pattern(P.want->coefsT, tk2, 4 + S().seed);
        // round trip fft(ifft(p)) within 1 unit
        TorusPolynomial_ifft(A, P.b); TorusPolynomial_fft(P.r, A);
        int64_t d = maxdiff(P.r->coefsT, P.b->coefsT); stat_max("roundtrip_error_units", (double)d); if (d > 1) violation(key, fmt("fft(ifft(p)) differs from p by %lld units (allowed 1)", (long long)d));
        // AddTo commutes
        TorusPolynomial_ifft(Bq, P.want); LagrangeHalfCPolynomialAddTo(A, Bq); TorusPolynomial_fft(P.r, A);
        for (int i = 0; i < N; i++) P.r2->coefsT[i] = (Torus32)((uint32_t)P.b->coefsT[i] + (uint32_t)P.want->coefsT[i]);
        d = maxdiff(P.r->coefsT, P.r2->coefsT); if (d > 2) violation(key, fmt("LagrangeHalfCPolynomialAddTo: fft(ifft(p)+ifft(q)) differs from p+q by %lld units", (long long)d));
        // Clear
        LagrangeHalfCPolynomialClear(A); TorusPolynomial_fft(P.r, A); for (int i = 0; i < N; i++) if (P.r->coefsT[i] != 0) { violation(key, "fft(LagrangeHalfCPolynomialClear) != 0"); break; }
        // SetTorusConstant / AddTorusConstant
        for (Torus32 mu : {(Torus32)0x20000000, (Torus32)INT32_MIN, (Torus32)INT32_MAX, (Torus32)-1, (Torus32)12345}) {
            LagrangeHalfCPolynomialSetTorusConstant(A, mu); TorusPolynomial_fft(P.r, A);
            for (int i = 0; i < N; i++) { int64_t e = ref::sdiff(P.r->coefsT[i], i == 0 ? mu : 0); if (e > 1 || e < -1) { violation(key, fmt("SetTorusConstant(0x%08x): coefficient %d off by %lld units", (uint32_t)mu, i, (long long)e)); break; } }
            TorusPolynomial_ifft(A, P.b); LagrangeHalfCPolynomialAddTorusConstant(A, mu); TorusPolynomial_fft(P.r, A);
            for (int i = 0; i < N; i++) { int64_t e = ref::sdiff(P.r->coefsT[i], (Torus32)((uint32_t)P.b->coefsT[i] + (i == 0 ? (uint32_t)mu : 0u))); if (e > 2 || e < -2) { violation(key, fmt("AddTorusConstant(0x%08x): coefficient %d off by %lld units", (uint32_t)mu, i, (long long)e)); break; } }
        }
        // Lagrange-domain accumulation of kpl digit x row products, as the external product does it (AddMul / SubMul)
        for (int kpl : {2, 4, 6, 8}) {
            std::vector<uint32_t> want(N, 0); LagrangeHalfCPolynomialClear(D);
            for (int q = 0; q < kpl; q++) {
                int_pattern(P.a->coefs, q % 6, q % 2 ? 512 : 64, q + tk); torus_pattern(P.r2->coefsT, (tk + q) % 5, q + tk2);
                IntPolynomial_ifft(A, P.a); TorusPolynomial_ifft(Bq, P.r2);
                std::vector<Torus32> pr(N); ref::negacyclic_mul_fast(pr.data(), P.a->coefs, P.r2->coefsT, N);
                if (q % 3 == 2) { LagrangeHalfCPolynomialSubMul(D, A, Bq); for (int i = 0; i < N; i++) want[i] -= (uint32_t)pr[i]; }
                else { LagrangeHalfCPolynomialAddMul(D, A, Bq); for (int i = 0; i < N; i++) want[i] += (uint32_t)pr[i]; }
            }
            TorusPolynomial_fft(P.r, D);
            d = maxdiff(P.r->coefsT, (Torus32 *)want.data()); stat_max("accumulation_error_units", (double)d);
            if (d > 2 * kpl) violation(key, fmt("Lagrange accumulation of %d products: error %lld units > %d", kpl, (long long)d, 2 * kpl));
        }
        // Mul
        int_pattern(P.a->coefs, 5, 512, tk); IntPolynomial_ifft(A, P.a); TorusPolynomial_ifft(Bq, P.b); LagrangeHalfCPolynomialMul(C, A, Bq); TorusPolynomial_fft(P.r, C);
        ref::negacyclic_mul_fast(P.r2->coefsT, P.a->coefs, P.b->coefsT, N); d = maxdiff(P.r->coefsT, P.r2->coefsT); if (d > 2) violation(key, fmt("LagrangeHalfCPolynomialMul error %lld units", (long long)d));
        // aliased arguments (the API has no restriction): Mul(B,A,B), Mul(A,A,B), AddMul(A,A,B) = A + A*B, SubMul(B,A,B) = B - A*B, AddTo(A,A) = 2A, MultFFT(b,a,b)
        { std::vector<uint32_t> pr(N); ref::negacyclic_mul_fast((Torus32 *)pr.data(), P.a->coefs, P.b->coefsT, N);
          auto lim = [&](const char *name, const uint32_t *want, int64_t tol) { TorusPolynomial_fft(P.r, C); int64_t e = maxdiff(P.r->coefsT, (const Torus32 *)want); if (e > tol) violation(key, fmt("%s: error %lld units (allowed %lld) when the result object is one of the operands", name, (long long)e, (long long)tol)); };
          std::vector<uint32_t> w(N);
          IntPolynomial_ifft(A, P.a); TorusPolynomial_ifft(C, P.b); LagrangeHalfCPolynomialMul(C, A, C); lim("LagrangeHalfCPolynomialMul(B, A, B)", pr.data(), 2);
          TorusPolynomial_ifft(Bq, P.b); IntPolynomial_ifft(C, P.a); LagrangeHalfCPolynomialMul(C, C, Bq); lim("LagrangeHalfCPolynomialMul(A, A, B)", pr.data(), 2);
          TorusPolynomial_ifft(C, P.b); for (int i = 0; i < N; i++) w[i] = (uint32_t)P.b->coefsT[i] + pr[i]; LagrangeHalfCPolynomialAddMul(C, A, C); lim("LagrangeHalfCPolynomialAddMul(B, A, B)", w.data(), 3);
          TorusPolynomial_ifft(C, P.b); for (int i = 0; i < N; i++) w[i] = (uint32_t)P.b->coefsT[i] - pr[i]; LagrangeHalfCPolynomialSubMul(C, A, C); lim("LagrangeHalfCPolynomialSubMul(B, A, B)", w.data(), 3);
          TorusPolynomial_ifft(C, P.b); for (int i = 0; i < N; i++) w[i] = 2 * (uint32_t)P.b->coefsT[i]; LagrangeHalfCPolynomialAddTo(C, C); lim("LagrangeHalfCPolynomialAddTo(A, A)", w.data(), 2);
          memcpy(P.r2->coefsT, P.b->coefsT, N * 4); torusPolynomialMultFFT(P.r2, P.a, P.r2); d = maxdiff(P.r2->coefsT, (const Torus32 *)pr.data()); if (d > 2) violation(key, fmt("torusPolynomialMultFFT(b, a, b): error %lld units", (long long)d));
          memcpy(P.r2->coefsT, P.b->coefsT, N * 4); for (int i = 0; i < N; i++) w[i] = (uint32_t)P.b->coefsT[i] + pr[i]; torusPolynomialAddMulRFFT(P.r2, P.a, P.r2); d = maxdiff(P.r2->coefsT, (const Torus32 *)w.data()); if (d > 2) violation(key, fmt("torusPolynomialAddMulRFFT(b, a, b): error %lld units", (long long)d));
          memcpy(P.r2->coefsT, P.b->coefsT, N * 4); for (int i = 0; i < N; i++) w[i] = (uint32_t)P.b->coefsT[i] - pr[i]; torusPolynomialSubMulRFFT(P.r2, P.a, P.r2); d = maxdiff(P.r2->coefsT, (const Torus32 *)w.data()); if (d > 2) violation(key, fmt("torusPolynomialSubMulRFFT(b, a, b): error %lld units", (long long)d)); }
        eval(28); nontrivial(1); outcome(mix(fnv(P.r->coefsT, 64), tk * 5 + tk2));
        }, 120);
        if (fate.died()) violation(key, "process terminated instead of returning: " + fate_str(fate) + " " + fate.text.substr(0, 300));
    }
}

// thread lifetimes: in a process that has not used an FFT yet, the products of a thread must be exact whichever thread used the FFT first and
// whether that thread is still alive (each case runs in a child forked before the harness touches the FFT)
#include <pthread.h>
struct TL { int id; int phases; int64_t err; sem_t go[2], done[2], bye; };
static int64_t one_product(uint64_t seed) {
    IntPolynomial *a = new_IntPolynomial(N); TorusPolynomial *b = new_TorusPolynomial(N), *r = new_TorusPolynomial(N); std::vector<Torus32> w(N);
    int_pattern(a->coefs, 5, 512, seed); torus_pattern(b->coefsT, 4, seed); ref::negacyclic_mul_fast(w.data(), a->coefs, b->coefsT, N);
    torusPolynomialMultFFT(r, a, b); int64_t d = maxdiff(r->coefsT, w.data()); delete_IntPolynomial(a); delete_TorusPolynomial(b); delete_TorusPolynomial(r); return d;
}
static void *tl_body(void *p) { TL *t = (TL *)p; for (int ph = 0; ph < t->phases; ph++) { sem_wait(&t->go[ph]); int64_t e = one_product(10 * t->id + ph); if (e > t->err) t->err = e; sem_post(&t->done[ph]); } sem_wait(&t->bye); return nullptr; } // stays alive (with its per-thread FFT state) until told to exit
static void tl_start(TL &t, pthread_t &th, int id, int phases) { t.id = id; t.phases = phases; t.err = 0; for (int q = 0; q < 2; q++) { sem_init(&t.go[q], 0, 0); sem_init(&t.done[q], 0, 0); } sem_init(&t.bye, 0, 0); pthread_create(&th, nullptr, tl_body, &t); }
static void tl_exit(TL &t, pthread_t th) { sem_post(&t.bye); pthread_join(th, nullptr); }
static void tl_step(TL &t, int ph) { sem_post(&t.go[ph]); sem_wait(&t.done[ph]); }
static void thread_lifetimes() {
    static const char *NAMES[] = {"worker-then-main", "worker-then-worker", "A-first,B-uses,A-exits,B-uses-again", "main-then-worker-then-main", "A-first,B-uses,C-uses,A-exits,C-exits,B-uses-again", "A-first,main-uses,A-exits,main-uses-again", "B-first,A-uses,B-exits,new-thread-uses,A-uses-again"};
    for (int sc = 0; sc < 7; sc++) {
        std::string key = fmt("thread-lifetime/%s", NAMES[sc]);
        if (!take(key)) continue; if (deadline()) return; current(key);
        Fate f = forked([&] {
            int64_t worst = 0; TL a, b, c; pthread_t ta, tb, tc;
            auto run1 = [&](int id) { TL t; pthread_t th; tl_start(t, th, id, 1); tl_step(t, 0); tl_exit(t, th); if (t.err > worst) worst = t.err; };
            switch (sc) {
                case 0: run1(1); worst = std::max(worst, one_product(2)); break;
                case 1: run1(1); run1(2); run1(3); break;
                case 2: tl_start(a, ta, 1, 1); tl_start(b, tb, 2, 2); tl_step(a, 0); tl_step(b, 0); tl_exit(a, ta); tl_step(b, 1); tl_exit(b, tb); worst = std::max(a.err, b.err); break;
                case 3: worst = std::max(worst, one_product(1)); run1(2); worst = std::max(worst, one_product(3)); break;
                case 4: tl_start(a, ta, 1, 1); tl_start(b, tb, 2, 2); tl_start(c, tc, 3, 1); tl_step(a, 0); tl_step(b, 0); tl_step(c, 0); tl_exit(a, ta); tl_exit(c, tc); tl_step(b, 1); tl_exit(b, tb); worst = std::max(a.err, std::max(b.err, c.err)); break;
                case 5: tl_start(a, ta, 1, 1); tl_step(a, 0); worst = std::max(worst, one_product(7)); tl_exit(a, ta); worst = std::max(worst, std::max(a.err, one_product(8))); break;
                default: tl_start(a, ta, 1, 2); tl_start(b, tb, 2, 1); tl_step(b, 0); tl_step(a, 0); tl_exit(b, tb); run1(4); tl_step(a, 1); tl_exit(a, ta); worst = std::max(worst, std::max(a.err, b.err)); break;
            }
            if (worst > 2) violation(key, fmt("torusPolynomialMultFFT error %lld units (allowed 2) in the thread history %s", (long long)worst, NAMES[sc]));
            eval(3); nontrivial(1); outcome(mix(sc, worst));
        }, 120);
        if (f.died()) violation(key, "process terminated in this thread history: " + fate_str(f) + " " + f.text.substr(0, 300));
    }
    sample("thread-lifetime/A-first,B-uses,A-exits,B-uses-again: thread A is the first FFT user of the process, thread B multiplies while A is alive, A exits, B multiplies again: all products within 2 units of the exact product");
}

int main(int argc, char **argv) {
    init(argc, argv);
    if (opt("part", "all") == "all" || opt("part", "all") == "threads") { thread_lifetimes(); if (opt("part", "all") == "threads") return finish(); }
    Polys P; P.a = new_IntPolynomial(N); P.b = new_TorusPolynomial(N); P.r = new_TorusPolynomial(N); P.r2 = new_TorusPolynomial(N); P.want = new_TorusPolynomial(N); P.L = new_LagrangeHalfCPolynomial_array(4, N);
    std::string part = opt("part", "all");
    if (part == "all" || part == "patterns") { patterns(P); lagrange_ops(P); }
    if (part == "all" || part == "basis") basis(P);
    sample("basis/i=1023: (B*X^1023)*(c*X^j) for every j, (B,c) in {(1,1),(512,MIN),...}: all 1024 output coefficients within 2 units of the exact monomial");
    sample("pattern/B=512/int=alt+-B/torus=altMAXMIN: MultFFT/AddMulRFFT/SubMulRFFT vs exact negacyclic product (64-bit wrapping reference)");
    return finish();
}
