// C08 — key switching preserves the phase up to the round-to-nearest truncation plus the noise of the rows actually used.
// Exact oracle (an equality mod 2^32 for every input): knowing both secret keys the harness knows the error e[i][j][h] of every row;
//   phase_out - phase_in = sum_i s_i (a_i - r_i) - sum_{i,j: digit_ij != 0} e[i][j][digit_ij]
// where r_i is the nearest multiple of 2^(32-t*basebit) to a_i (either neighbour on an exact tie) and digit_ij its base-2^basebit digits.
#include "vf.hpp"
#include "ref.hpp"
#include <tfhe.h>
#include <lwe-functions.h>
#include <lwekeyswitch.h>

using namespace vf;

struct KS {
    int nin, nout, t, bb; bool noisy;
    LweParams *pin, *pout; LweKey *kin, *kout; LweKeySwitchKey *ks;
    std::vector<int32_t> err; // e[i][j][h], units, as int32 wrapping
    int32_t &e(int i, int j, int h) { return err[((size_t)i * t + j) << bb | h]; }
};

static KS *make_ks(int nin, int nout, int t, int bb, bool noisy, int keykind /*0: seeded bits, 1: all ones, 2: all zero (input key)*/, uint64_t seed) {
    KS *K = new KS; K->nin = nin; K->nout = nout; K->t = t; K->bb = bb; K->noisy = noisy;
    K->pin = new_LweParams(nin, 0., 1.); K->pout = new_LweParams(nout, noisy ? 1e-5 : 0., 1.);
    K->kin = new_LweKey(K->pin); K->kout = new_LweKey(K->pout);
    uint64_t x = seed * 977 + nin * 31 + nout;
    for (int i = 0; i < nin; i++) K->kin->key[i] = keykind == 1 ? 1 : keykind == 2 ? 0 : (int)(splitmix(x) & 1);
    if (nin == 1 && keykind == 0) K->kin->key[0] = 1;
    for (int i = 0; i < nout; i++) K->kout->key[i] = (int)(splitmix(x) & 1);
    K->ks = new_LweKeySwitchKey(nin, t, bb, K->pout);
    int base = 1 << bb;
    if (noisy) {
        uint32_t sd[2] = {(uint32_t)seed, (uint32_t)(nin * 131 + nout)}; tfhe_random_generator_setSeed(sd, 2);
        lweCreateKeySwitchKey(K->ks, K->kin, K->kout);
    } else {
        for (int i = 0; i < nin; i++) for (int j = 0; j < t; j++) for (int h = 0; h < base; h++) {
            LweSample *r = &K->ks->ks[i][j][h];
            uint32_t b = (uint32_t)(K->kin->key[i] * h) << (32 - (j + 1) * bb);
            for (int p = 0; p < nout; p++) { r->a[p] = h ? (Torus32)splitmix(x) : 0; b += (uint32_t)r->a[p] * (uint32_t)K->kout->key[p]; }
            r->b = (Torus32)b; r->current_variance = 0;
        }
    }
    K->err.assign((size_t)nin * t << bb, 0);
    for (int i = 0; i < nin; i++) for (int j = 0; j < t; j++) for (int h = 0; h < base; h++) {
        const LweSample *r = &K->ks->ks[i][j][h];
        uint32_t ph = (uint32_t)ref::lwe_phase(r->a, r->b, K->kout->key, nout);
        uint32_t msg = (uint32_t)(K->kin->key[i] * h) << (32 - (j + 1) * bb);
        K->e(i, j, h) = (int32_t)(ph - msg);
    }
    return K;
}
static void free_ks(KS *K) { delete_LweKeySwitchKey(K->ks); delete_LweKey(K->kin); delete_LweKey(K->kout); delete_LweParams(K->pin); delete_LweParams(K->pout); delete K; }

// expected phase difference contribution of coefficient i with value a, for rounding choice `down` (only meaningful on a tie)
static inline uint32_t contrib(KS *K, int i, uint32_t a, bool down, bool *tie, int64_t *rounding) {
    int tb = K->t * K->bb; int sh = 32 - tb; // sh >= 1
    uint64_t half = (uint64_t)1 << (sh - 1);
    uint64_t low = a & (((uint64_t)1 << sh) - 1);
    *tie = low == half;
    uint64_t R = ((uint64_t)a + half) >> sh; // round half up
    if (down && *tie) R -= 1;
    R &= ((uint64_t)1 << tb) - 1;
    uint32_t r = (uint32_t)(R << sh);
    int32_t d = (int32_t)(a - r); *rounding = d; // a - r in [-half, half]
    uint32_t c = (uint32_t)K->kin->key[i] * (uint32_t)d;
    for (int j = 0; j < K->t; j++) { int dig = (int)((R >> (tb - (j + 1) * K->bb)) & ((1u << K->bb) - 1)); if (dig) c -= (uint32_t)K->e(i, j, dig); }
    return c;
}

// n_in = 1 : check one value a.  returns false on violation
static inline bool check_one(KS *K, const std::string &key, LweSample *in, LweSample *out, uint32_t a, int64_t *sumround) {
    in->a[0] = (Torus32)a; in->b = (Torus32)(a * 2654435761u + 12345u);
    lweKeySwitch(out, K->ks, in);
    uint32_t pin = (uint32_t)in->b - a * (uint32_t)K->kin->key[0];
    uint32_t pout = (uint32_t)ref::lwe_phase(out->a, out->b, K->kout->key, K->nout);
    bool tie; int64_t rd; uint32_t c = contrib(K, 0, a, false, &tie, &rd);
    uint32_t diff = pout - pin;
    if (diff == c) { *sumround += K->kin->key[0] ? rd : 0; return true; }
    if (tie) { bool t2; int64_t rd2; uint32_t c2 = contrib(K, 0, a, true, &t2, &rd2); if (diff == c2) { *sumround += K->kin->key[0] ? rd2 : 0; return true; } }
    violation(key, fmt("a=0x%08x (t=%d basebit=%d n_out=%d key bit %d %s key): phase_out - phase_in = %d units, truncation+row noise predicts %d", a, K->t, K->bb, K->nout, K->kin->key[0], K->noisy ? "noisy" : "noiseless", (int32_t)diff, (int32_t)c));
    return false;
}

struct Layout { int t, bb; };

static void sweeps() {
    std::vector<Layout> full = quick() ? std::vector<Layout>{} : std::vector<Layout>{{8, 2}, {31, 1}, {15, 2}, {16, 1}, {3, 10}, {1, 1}};
    std::vector<Layout> all = {{8, 2}, {1, 1}, {31, 1}, {15, 2}, {16, 1}, {10, 3}, {7, 4}, {6, 5}, {3, 8}, {3, 10}};
    int stride_bits_quick = 6; // residue class mod 64
    for (auto L : all) {
        bool isfull = false; for (auto f : full) if (f.t == L.t && f.bb == L.bb) isfull = true;
        for (int noisy = 0; noisy < 2; noisy++) for (int nout : {8, 1, 7, 9, 16}) for (int sin = 1; sin >= 0; sin--) {
            // full product only for the default layout; other layouts: nout=8 / key bit 1 (both key kinds)
            bool dflt = L.t == 8 && L.bb == 2;
            if (!dflt && (nout != 8 || sin != 1)) continue;
            if (dflt && sin == 0 && nout != 8) continue;
            KS *K = nullptr; LweSample *in = nullptr, *out = nullptr;
            auto ensure = [&]() { if (!K) { K = make_ks(1, nout, L.t, L.bb, noisy, sin ? 0 : 2, 5 + S().seed); in = new_LweSample(K->pin); out = new_LweSample(K->pout); } };
            std::string base = fmt("t=%d/bb=%d/nout=%d/key=%s/sin=%d", L.t, L.bb, nout, noisy ? "noisy" : "noiseless", sin);
            // ---- boundary alphabet: +-64 around every digit-carry boundary (before rounding offset), and around 0, 2^31, 2^32-1
            {
                std::string key = "boundary/" + base;
                if (take(key) && !deadline()) {
                    ensure(); current(key);
                    int tb = L.t * L.bb; uint32_t off = 1u << (31 - tb); int64_t sr = 0; uint64_t n = 0; bool ok = true;
                    std::vector<uint32_t> centers = {0u, 0x80000000u, 0xFFFFFFFFu, 0x7FFFFFFFu};
                    for (int j = 0; j < L.t; j++) { int sh = 32 - (j + 1) * L.bb; uint64_t cnt = (uint64_t)1 << ((j + 1) * L.bb);
                        for (uint64_t m : {(uint64_t)0, (uint64_t)1, cnt / 2, cnt / 2 + 1, cnt - 1, cnt / 3}) { if (m >= cnt) continue; centers.push_back((uint32_t)(m << sh)); centers.push_back((uint32_t)(m << sh) - off); } }
                    for (uint32_t c : centers) for (int d = -64; d <= 64 && ok; d++) { ok = check_one(K, key, in, out, c + (uint32_t)d, &sr); n++; }
                    eval(n); nontrivial(n); outcome(mix(fnv(out->a, K->nout * 4), L.t * 100 + L.bb));
                }
            }
            // ---- sweep over the mask coefficient: chunks of 2^24; quick = residue class a = r (mod 64), thorough = all values for the `full` layouts, class mod 16 otherwise
            for (uint32_t c = 0; c < 256; c++) {
                std::string key = fmt("sweep/%s/chunk=%u", base.c_str(), c);
                if (quick() && !(dflt && nout == 8 && sin == 1)) break;
                if (!take(key)) continue;
                if (deadline()) break;
                ensure(); current(key);
                int sb = quick() ? stride_bits_quick : (isfull && nout == 8 && sin == 1 && (!noisy || dflt) ? 0 : 4);
                uint32_t stride = 1u << sb, r0 = (uint32_t)(S().seed) & (stride - 1);
                int64_t sr = 0; uint64_t n = 0; bool ok = true;
                for (uint64_t i = r0; i < (1u << 24) && ok; i += stride) { ok = check_one(K, key, in, out, (c << 24) | (uint32_t)i, &sr); n++; }
                eval(n); nontrivial(n);
                stat_sum(fmt("rounding_units/%s", base.c_str()), (double)sr); stat_sum(fmt("values/%s", base.c_str()), (double)n);
                if (sb) S().exhaustive = S().exhaustive; // a residue class is the stated bound of this tier
                if (c == 0x40) sample(fmt("%s: a in 0x40000000..0x40ffffff step %u: phase_out - phase_in == s*(a - round_t(a)) - sum of the errors of the rows actually used (exact equality)", base.c_str(), stride));
                outcome(mix(fnv(out->a, K->nout * 4), c));
            }
            if (K) { delete_LweSample(in); delete_LweSample(out); free_ks(K); }
        }
    }
}

// general dimension pairs, forked (guard pages / sanitizers attribute a crash to the case in flight)
static void dim_pair(int nin, int nout, int t, int bb, bool noisy) {
    KS *K = make_ks(nin, nout, t, bb, noisy, 0, 17 + S().seed);
    LweSample *in = new_LweSample(K->pin), *out = new_LweSample(K->pout);
    int tb = t * bb; uint32_t off = 1u << (31 - tb);
    const uint32_t ALPHA[] = {0u, 1u, 0xFFFFFFFFu, off - 1, off, 0x7FFFFFFFu, 0x80000000u, 0u - off, 0u - off - 1};
    uint64_t x = nin * 7 + nout;
    for (int kind = 0; kind < 12; kind++) {
        std::string key = fmt("dims/nin=%d/nout=%d/t=%d/bb=%d/key=%s/content=%d", nin, nout, t, bb, noisy ? "noisy" : "noiseless", kind);
        if (!want(key)) continue;
        current(key);
        for (int i = 0; i < nin; i++) in->a[i] = kind < 9 ? (Torus32)ALPHA[kind] : (Torus32)splitmix(x);
        if (kind == 10) for (int i = 0; i < nin; i++) in->a[i] = (Torus32)ALPHA[i % 9];
        in->b = (Torus32)splitmix(x);
        for (int i = 0; i < nout; i++) out->a[i] = 0x5a5a5a5a;
        lweKeySwitch(out, K->ks, in);
        uint32_t pin = (uint32_t)ref::lwe_phase(in->a, in->b, K->kin->key, nin), pout = (uint32_t)ref::lwe_phase(out->a, out->b, K->kout->key, nout);
        // ties: enumerate both roundings only where needed; with many coefficients on a tie the set of acceptable sums is an interval of choices ->
        // accept if diff equals base prediction plus any subset-sum of per-coefficient tie alternatives; ties are rare in this alphabet except kind with a=off-... so handle up to 2^k small
        uint32_t c0 = 0; std::vector<uint32_t> alt; bool tie; int64_t rd;
        for (int i = 0; i < nin; i++) { uint32_t c = contrib(K, i, (uint32_t)in->a[i], false, &tie, &rd); c0 += c; if (tie) { bool t2; int64_t r2; alt.push_back(contrib(K, i, (uint32_t)in->a[i], true, &t2, &r2) - c); } }
        uint32_t diff = pout - pin; bool ok = diff == c0;
        if (!ok && !alt.empty()) { // all coefficients share the same value in the tie kinds -> alternatives are per-coefficient; try "all down" and single flips
            uint32_t alld = c0; for (auto a : alt) alld += a; if (diff == alld) ok = true;
            for (size_t q = 0; q < alt.size() && !ok; q++) if (diff == c0 + alt[q]) ok = true;
        }
        if (!ok) violation(key, fmt("phase_out - phase_in = %d units, truncation + noise of the rows used predicts %d (n_in=%d n_out=%d t=%d basebit=%d)", (int32_t)diff, (int32_t)c0, nin, nout, t, bb));
        eval(1); nontrivial(1); outcome(mix(diff, kind));
    }
    current(fmt("dims/nin=%d/nout=%d/t=%d/bb=%d/key=%s/(end-of-group)", nin, nout, t, bb, noisy ? "noisy" : "noiseless"));
    delete_LweSample(in); delete_LweSample(out); free_ks(K);
}

// histories: a key switch with layout A, then with layout B in the same thread (every ordered pair of the ten layouts): B must be exact
static void layout_histories() {
    std::vector<Layout> all = {{8, 2}, {1, 1}, {31, 1}, {15, 2}, {16, 1}, {10, 3}, {7, 4}, {6, 5}, {3, 8}, {3, 10}, {4, 4}, {2, 8}, {5, 6}};
    for (size_t a = 0; a < all.size(); a++) for (size_t b = 0; b < all.size(); b++) { if (a == b) continue;
        std::string key = fmt("layout-history/(%d,%d)-then-(%d,%d)", all[a].t, all[a].bb, all[b].t, all[b].bb);
        if (!take(key)) continue; if (deadline()) return; current(key);
        KS *A = make_ks(1, 8, all[a].t, all[a].bb, false, 0, 21), *B = make_ks(1, 8, all[b].t, all[b].bb, false, 0, 22);
        LweSample *in = new_LweSample(A->pin), *oa = new_LweSample(A->pout), *ob = new_LweSample(B->pout); int64_t sr = 0; bool ok = true; uint64_t x = a * 100 + b;
        for (int rep = 0; rep < 24 && ok; rep++) { uint32_t v = rep < 8 ? (uint32_t)splitmix(x) : rep < 16 ? (0x80000000u >> (rep - 8)) - 1 : (1u << (31 - all[b].t * all[b].bb)) * (uint32_t)(rep - 15);
            ok = check_one(A, key, in, oa, v ^ 0x5a5a5a5a, &sr) && check_one(B, key, in, ob, v, &sr); }
        eval(48); nontrivial(1); outcome(mix(a, b)); delete_LweSample(in); delete_LweSample(oa); delete_LweSample(ob); free_ks(A); free_ks(B);
    }
    sample("layout-history/(8,2)-then-(4,4): one thread key-switches with (t,basebit)=(8,2) and then with (4,4) (same t*basebit): both exact");
}

int main(int argc, char **argv) {
    init(argc, argv);
    if (opt("part", "all") != "dims") { layout_histories(); sweeps(); }
    if (opt("part", "all") != "sweeps") {
        std::vector<int> nins = quick() ? std::vector<int>{1, 2, 7, 8, 9, 1024} : std::vector<int>{1, 2, 7, 8, 9, 1024, 2048};
        std::vector<int> nouts = quick() ? std::vector<int>{1, 3, 7, 8, 9, 500} : std::vector<int>{1, 3, 7, 8, 9, 500, 630};
        for (int nin : nins) for (int nout : nouts) for (int noisy = 0; noisy < 2; noisy++) for (Layout L : {Layout{8, 2}, Layout{3, 5}}) {
            if (L.t == 3 && (nin > 9 || noisy)) continue;
            if ((int64_t)nin * nout > 1024 * 630) continue;
            std::string prefix = fmt("dims/nin=%d/nout=%d/t=%d/bb=%d/key=%s/", nin, nout, L.t, L.bb, noisy ? "noisy" : "noiseless");
            if (!take_group(prefix) || deadline()) continue;
            current(prefix + "(start)");
            Fate f = forked([=] { dim_pair(nin, nout, L.t, L.bb, noisy); }, 300);
            if (f.died()) violation(curkey(), "process died in this case: " + fate_str(f) + " " + f.text.substr(0, 400));
        }
        sample("dims/nin=7/nout=3/t=8/bb=2/key=noisy/content=10: mask = boundary alphabet {0,1,-1,offset-1,offset,2^31-1,2^31,-offset,-offset-1} cyclically; exact phase equality");
    }
    return finish();
}
