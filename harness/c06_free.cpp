// C06 (d) — free-running race pass (supporting evidence, not the deciding step): the scenario bodies of c06_bodies.hpp run on real,
// unscheduled threads on the ThreadSanitizer build (debug: the C++ loops, not the AVX2 asm, touch memory); any TSan report kills the job
// (exit code 66) and is attributed to the case in flight.  Also: outputs must equal the sequential references; an oversubscribed
// create/use/exit loop.  TSan cannot see the hand-written assembly kernels; the scheduler exploration (c06.cpp) covers those.
#include "c06_bodies.hpp"
#include <atomic>
#include <thread>
using namespace vf;
using namespace c06;

int main(int argc, char **argv) {
    init(argc, argv);
    for (int T : {2, 3, 8, 16}) {
        for (auto &sc : scenarios(T, 2, {7})) {
            if (sc.nthreads != T && sc.name[0] != 'H') continue;
            std::string key = fmt("free/%s/T=%d", sc.name.c_str(), sc.nthreads);
            if (!take(key)) continue; if (deadline()) break; current(key);
            SH() = Shared();   // each scenario starts from empty shared inputs (the explorer gets that from fork-per-execution)
            sc.prepare(); int n = sc.nthreads; std::vector<std::string> refs(n), outs(n);
            if (sc.after_run) sc.after_run(); for (int t = 0; t < n; t++) refs[t] = sc.work(t);
            if (sc.before_run) sc.before_run();
            for (int rep = 0; rep < (quick() ? 3 : 20); rep++) { std::vector<std::thread> ts; if (rep && sc.before_run) sc.before_run();
                for (int t = 0; t < n; t++) ts.emplace_back([&, t] { outs[t] = sc.work(t); }); for (auto &t : ts) t.join(); if (sc.after_run) sc.after_run();
                for (int t = 0; t < n; t++) if (outs[t] != refs[t]) { violation(key, fmt("free-running repetition %d: thread %d output differs from its sequential reference", rep, t)); rep = 1000; break; }
                eval(1); }
            nontrivial(1); outcome(mix(fnv(refs[0].data(), 32), T));
        }
    }
    { std::string key = "free/oversubscribed-create-exit"; if (take(key) && !deadline()) { current(key); SH() = Shared(); prep_polys(1, N); TorusPolynomial *ref = new_TorusPolynomial(N); torusPolynomialMultFFT(ref, SH().ia.back(), SH().tb.back()); std::string want = poly_bytes(ref);
        std::atomic<int> bad(0); for (int round = 0; round < (quick() ? 4 : 40); round++) { std::vector<std::thread> ts; for (int t = 0; t < 64; t++) ts.emplace_back([&] { TorusPolynomial *r = new_TorusPolynomial(N); torusPolynomialMultFFT(r, SH().ia.back(), SH().tb.back()); if (poly_bytes(r) != want) bad++; delete_TorusPolynomial(r); }); for (auto &t : ts) t.join(); eval(64); }
        if (bad) violation(key, fmt("%d of the oversubscribed threads computed a different product", bad.load())); nontrivial(1); outcome(7); } }
    sample("free/H3-gates-shared-cloud-key/T=16: 16 unscheduled threads evaluate gates with one shared cloud key under ThreadSanitizer");
    return finish();
}
