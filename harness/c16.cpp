// C16 — no out-of-bounds access, uninitialised read or leak for any valid configuration.
// Configuration matrix x API lifecycles (new params -> keygen -> encrypt -> every gate -> export on both transports -> import -> gate with the
// imported key -> deletions in a chosen order -> garbage collector), each cell in a forked child; thread create/use/exit histories.
// Oracles are supplied by how the job is run: ASan/UBSan builds (no report), guard pages after/before every heap block on the real optim
// library (sees the inline-asm and .s accesses), fill-pattern A/B differential through "xcmp:" (an uninitialised read that influences a result
// changes the digest), live-allocation steady state (guardalloc accounting).
#include "vf.hpp"
#include "gates.hpp"
#include <tfhe_io.h>
#include <tfhe_garbage_collector.h>
#include <lwe-functions.h>
#include <polynomials_arithmetic.h>
#include <lagrangehalfc_arithmetic.h>
#include <sstream>
#include <thread>
#include <algorithm>
using namespace vf;
using namespace gates;

extern "C" { extern volatile long vf_live_blocks, vf_live_bytes, vf_guarded_allocs, vf_unguarded_allocs; int vf_guard_mode(); }
#ifdef VF_NO_GUARDALLOC
volatile long vf_live_blocks = 0, vf_live_bytes = 0, vf_guarded_allocs = 0, vf_unguarded_allocs = 0; int vf_guard_mode() { return -1; }
#endif

struct Cell { int n, k, l, Bgbit, t, bb; int noiseless = 0; };
static double key_mb(const Cell &c) { double ks = (double)c.k * 1024 * c.t * (1 << c.bb) * (c.n + 1) * 4, bk = (double)c.n * (c.k + 1) * c.l * (c.k + 1) * 1024 * 4; return (ks + 3 * bk) / 1048576.0; /* bk + FFT image (2x) */ }

// one complete lifecycle; returns a digest of every observable output
static uint64_t lifecycle(const Cell &c, int perm, bool file_first) {
    uint64_t h = 1469598103934665603ULL;
    uint32_t sd[3] = {(uint32_t)c.n, (uint32_t)(c.k * 100 + c.l), (uint32_t)(c.t * 100 + c.bb)}; tfhe_random_generator_setSeed(sd, 3);
    LweParams *lp = new_LweParams(c.n, c.noiseless ? 0. : 1e-9, 0.01); TLweParams *tp = new_TLweParams(1024, c.k, c.noiseless ? 0. : 1e-10, 0.01); TGswParams *gp = new_TGswParams(c.l, c.Bgbit, tp);   // noise parameters exactly 0 are valid too
    TFheGateBootstrappingParameterSet *ps = new TFheGateBootstrappingParameterSet(c.t, c.bb, lp, gp);
    SK *sk = new_random_gate_bootstrapping_secret_keyset(ps);
    LweSample *ct = new_gate_bootstrapping_ciphertext_array(6, ps); LweSample *single = new_gate_bootstrapping_ciphertext(ps);
    for (int q = 0; q < 3; q++) bootsSymEncrypt(ct + q, q & 1, sk);
    auto all_gates = [&](const CK *ck) { for (const Gate &g : table()) { apply(g, ct + 3, ct, ct + 1, ct + 2, 1, ck); h = hash_lwe(ct + 3, c.n, h); h = mix(h, (uint64_t)bootsSymDecrypt(ct + 3, sk)); }
        bootsNAND(ct + 4, ct, ct + 1, ck); bootsMUX(ct + 5, ct + 3, ct + 4, ct, ck); h = hash_lwe(ct + 5, c.n, h); };
    all_gates(&sk->cloud);
    // bootstrapping of a sample whose rounded right-hand side is 0 (a branch of its own in the blind rotation, met once in 2N gates), and
    // sample extraction at the indices the gates never use (0 is the only one they use)
    { LweSample *z = new_LweSample(lp), *o = new_LweSample(lp), *oe = new_LweSample(&tp->extracted_lweparams); for (int i = 0; i < c.n; i++) z->a[i] = (Torus32)(i * 2654435761u); z->current_variance = 0;
      for (Torus32 b : {(Torus32)0, (Torus32)1000, (Torus32)-1000}) { z->b = b; tfhe_bootstrap_FFT(o, sk->cloud.bkFFT, 0x20000000, z); h = hash_lwe(o, c.n, h); tfhe_bootstrap_woKS_FFT(oe, sk->cloud.bkFFT, 0x20000000, z); h = vf::fnv(oe->a, c.k * 1024 * 4, h); tfhe_bootstrap(o, sk->cloud.bk, 0x20000000, z); h = hash_lwe(o, c.n, h); }
      TLweSample *acc = new_TLweSample(tp); for (int i = 0; i <= c.k; i++) for (int j = 0; j < 1024; j++) acc->a[i].coefsT[j] = (Torus32)((i * 1024 + j) * 2246822519u);
      for (int idx : {0, 1, 512, 1023}) { tLweExtractLweSampleIndex(oe, acc, idx, &tp->extracted_lweparams, tp); h = vf::fnv(oe->a, c.k * 1024 * 4, h); h = vf::fnv(&oe->b, 4, h); }
      delete_TLweSample(acc); delete_LweSample(z); delete_LweSample(o); delete_LweSample(oe); }
    // export on both transports, import, evaluate with the imported key
    std::string cloudbytes; CK *imported[2] = {nullptr, nullptr};
    for (int rnd = 0; rnd < 2; rnd++) { bool file = (rnd == 0) == file_first;
        if (file) { char *b = nullptr; size_t len = 0; FILE *F = open_memstream(&b, &len); export_tfheGateBootstrappingCloudKeySet_toFile(F, &sk->cloud); export_gate_bootstrapping_ciphertext_toFile(F, ct, ps); fclose(F); std::string bytes(b, len); free(b); h = fnv(bytes.data(), bytes.size(), h);
            FILE *G = fmemopen((void *)bytes.data(), bytes.size(), "rb"); imported[rnd] = new_tfheGateBootstrappingCloudKeySet_fromFile(G); import_gate_bootstrapping_ciphertext_fromFile(G, single, imported[rnd]->params); fclose(G); }
        else { std::ostringstream os; export_tfheGateBootstrappingCloudKeySet_toStream(os, &sk->cloud); export_gate_bootstrapping_ciphertext_toStream(os, ct + 1, ps); std::string bytes = os.str(); h = fnv(bytes.data(), bytes.size(), h);
            std::istringstream is(bytes); imported[rnd] = new_tfheGateBootstrappingCloudKeySet_fromStream(is); import_gate_bootstrapping_ciphertext_fromStream(is, single, imported[rnd]->params); }
        h = hash_lwe(single, c.n, h); bootsXOR(ct + 3, ct, single, imported[rnd]); h = hash_lwe(ct + 3, c.n, h); }
    { std::ostringstream os; export_tfheGateBootstrappingSecretKeySet_toStream(os, sk); std::string bytes = os.str(); h = fnv(bytes.data(), bytes.size(), h); std::istringstream is(bytes); SK *sk2 = new_tfheGateBootstrappingSecretKeySet_fromStream(is); h = mix(h, (uint64_t)bootsSymDecrypt(ct + 3, sk2)); delete_gate_bootstrapping_secret_keyset(sk2); }
    // array allocators with 0, 1, 3 elements
    for (int nb : {0, 1, 3}) { LweSample *a = new_LweSample_array(nb, lp); delete_LweSample_array(nb, a); TLweSample *b = new_TLweSample_array(nb, tp); delete_TLweSample_array(nb, b); TGswSample *g = new_TGswSample_array(nb, gp); delete_TGswSample_array(nb, g);
        IntPolynomial *ip = new_IntPolynomial_array(nb, 1024); delete_IntPolynomial_array(nb, ip); TorusPolynomial *tq = new_TorusPolynomial_array(nb, 1024); delete_TorusPolynomial_array(nb, tq); LagrangeHalfCPolynomial *lh = new_LagrangeHalfCPolynomial_array(nb, 1024); delete_LagrangeHalfCPolynomial_array(nb, lh);
        LweKey *lk = new_LweKey_array(nb, lp); delete_LweKey_array(nb, lk); TGswSampleFFT *gf = new_TGswSampleFFT_array(nb, gp); delete_TGswSampleFFT_array(nb, gf); }
    // the four deletions in the order selected by `perm` (all 24 orders are allowed by the API; parameters read from streams belong to the collector)
    int order[4] = {0, 1, 2, 3}; for (int q = 0; q < perm % 24; q++) std::next_permutation(order, order + 4);
    for (int q = 0; q < 4; q++) switch (order[q]) { case 0: delete_gate_bootstrapping_ciphertext_array(6, ct); delete_gate_bootstrapping_ciphertext(single); break; case 1: delete_gate_bootstrapping_cloud_keyset(imported[0]); delete_gate_bootstrapping_cloud_keyset(imported[1]); break;
        case 2: delete_gate_bootstrapping_secret_keyset(sk); break; case 3: delete_gate_bootstrapping_parameters(ps); break; }
    TfheGarbageCollector::finalize();
    delete_TGswParams(gp); delete_TLweParams(tp); delete_LweParams(lp);
    return h;
}

static void part_cells() {
    std::vector<int> ns = quick() ? std::vector<int>{1, 7, 8, 9, 1025} : std::vector<int>{1, 3, 7, 8, 9, 500, 630, 1024, 1025, 1100};
    struct LB { int l, Bgbit; } lbs[] = {{2, 10}, {3, 7}, {4, 8}, {16, 2}, {32, 1}, {1, 1}}; struct TB { int t, bb; } tbs[] = {{8, 2}, {1, 1}, {31, 1}, {15, 2}, {3, 10}};
    int idx = 0; double excluded = 0, total = 0;
    for (int n : ns) for (int k : {1, 2}) for (auto lb : lbs) for (auto tb : tbs) for (int nl : {0, 1}) {
        bool dflt = lb.l == 2 && lb.Bgbit == 10 && tb.t == 8 && tb.bb == 2;
        if (nl && !(dflt && n <= 9)) continue;   // the noiseless twin of the small default-layout cells
        Cell c{n, k, lb.l, lb.Bgbit, tb.t, tb.bb}; c.noiseless = nl; idx++; total++;
        if (opt("cells") == "small" && !((n == 1 || n == 7 || n == 9) && ((dflt) || (k == 1 && lb.l == 3 && tb.t == 1) || (k == 1 && lb.l == 1 && tb.t == 15)))) continue; // reduced matrix for the memcheck pass
        if (quick() && !(dflt || (k == 1 && n <= 9 && ((lb.l == 2 && lb.Bgbit == 10) || (tb.t == 8 && tb.bb == 2))) || (n == 1025 && k == 2 && lb.l == 3 && tb.t == 8))) continue;
        double mb = key_mb(c); if (mb > (quick() ? 64 : 300)) { excluded++; info(fmt("excluded/n=%d,k=%d,l=%d,t=%d,bb=%d", n, k, lb.l, tb.t, tb.bb), fmt("%.0f MB of key material", mb)); continue; }
        std::string key = fmt("cell/n=%d/k=%d/l=%d/Bgbit=%d/t=%d/bb=%d%s", n, k, lb.l, lb.Bgbit, tb.t, tb.bb, nl ? "/noise=0" : "");
        if (!take(key)) continue; if (deadline()) return; current(key);
        int nperm = (n <= 9 && dflt && k == 1 && !nl) ? 24 : 1;
        Fate f = forked([&] {
            uint64_t h0 = 0; long live1 = 0, live2 = 0;
            for (int p = 0; p < nperm + 1; p++) { // the first lifecycle warms one-time caches (per-thread FFT processor, FFTW wisdom); afterwards the live count must be stationary
                uint64_t h = lifecycle(c, nperm == 1 ? idx + p : (p == 0 ? 0 : p - 1), (idx + p) & 1);
                if (p == 0) { h0 = h; live1 = vf_live_blocks; } else { if (h != h0 && false) {} live2 = vf_live_blocks; if (vf_guard_mode() >= 0 && live2 != live1) { violation(key, fmt("live heap blocks after lifecycle #%d: %ld, after lifecycle #1: %ld: objects released through the deletion API are not fully freed (deletion order %d)", p + 1, live2, live1, nperm == 1 ? idx + p : p - 1)); break; } }
                eval(1); }
            blob(fmt("%016llx", (unsigned long long)h0)); nontrivial(1); stat_max("guarded_allocs", (double)vf_guarded_allocs); stat_max("unguarded_allocs", (double)vf_unguarded_allocs);
        }, 1200);
        if (f.died()) { violation(key, "process died in this configuration: " + fate_str(f) + " " + f.text.substr(0, 500)); continue; }
        info("xcmp:" + std::string(VF_VARIANT) + "/" + S().backend + "/" + key, S().blob); outcome(fnv(S().blob.data(), S().blob.size()));
    }
    stat_max("cells_excluded_by_size", excluded); stat_max("cells_total", total);
    sample("cell/n=1025/k=2/l=3/Bgbit=7/t=8/bb=2: keygen, 3 encryptions, all 14 gates, export/import on FILE and stream, gate with both imported keys, secret-key round trip, array allocators (0,1,3), 4 deletions in order #idx, collector finalize; twice; live blocks stationary");
}

// thread histories: per-thread FFT state is released when the thread exits
static void part_threads() {
    IntPolynomial *a = new_IntPolynomial(1024); TorusPolynomial *b = new_TorusPolynomial(1024); for (int i = 0; i < 1024; i++) { a->coefs[i] = i % 7 - 3; b->coefsT[i] = i * 2654435; }
    // a complete tiny key set for gate evaluation on the worker threads (k = 2 so that every per-call temporary has its larger shape)
    uint32_t sd[2] = {16, 16}; tfhe_random_generator_setSeed(sd, 2);
    LweParams *lp = new_LweParams(6, 1e-9, 0.01); TLweParams *tp = new_TLweParams(1024, 2, 1e-10, 0.01); TGswParams *gp = new_TGswParams(2, 10, tp); TFheGateBootstrappingParameterSet *ps = new TFheGateBootstrappingParameterSet(4, 2, lp, gp);
    SK *sk = new_random_gate_bootstrapping_secret_keyset(ps); LweSample *in = new_gate_bootstrapping_ciphertext_array(3, ps); for (int q = 0; q < 3; q++) bootsSymEncrypt(in + q, q & 1, sk);
    auto use_fft = [&](int times) { TorusPolynomial *r = new_TorusPolynomial(1024); for (int q = 0; q < times; q++) torusPolynomialMultFFT(r, a, b); delete_TorusPolynomial(r); };
    auto use_gates = [&](int times) { LweSample *r = new_gate_bootstrapping_ciphertext(ps); for (int q = 0; q < times; q++) { bootsNAND(r, in, in + 1, &sk->cloud); bootsMUX(r, in, in + 1, in + 2, &sk->cloud); } delete_gate_bootstrapping_ciphertext(r); };
    auto use_misc = [&](int times) { for (int q = 0; q < times; q++) { TorusPolynomial *r = new_TorusPolynomial(1024); torusPolynomialMultKaratsuba(r, a, b); IntPolynomial *d = new_IntPolynomial_array(2, 1024); tGswTorus32PolynomialDecompH(d, r, gp); delete_IntPolynomial_array(2, d); delete_TorusPolynomial(r);
        LweSample *u = new_LweSample(&tp->extracted_lweparams); tfhe_bootstrap_woKS_FFT(u, sk->cloud.bkFFT, 5, in); tfhe_bootstrap_woKS(u, sk->cloud.bk, 5, in); delete_LweSample(u); std::ostringstream os; export_lweSample_toStream(os, in, lp); } };
    use_fft(1); use_gates(1); use_misc(1); // main thread's per-thread state
    struct W { const char *name; std::function<void(int)> f; } works[] = {{"fft", use_fft}, {"gates", use_gates}, {"misc", use_misc}};
    for (auto &w : works) for (int conc = 1; conc <= 3; conc++) for (int uses : {0, 1, 3}) {
        std::string key = fmt("threads/work=%s/concurrent=%d/uses=%d", w.name, conc, uses);
        if (!take(key)) continue; if (deadline()) return; current(key);
        Fate f = forked([&] { long base_blocks = 0, base_bytes = 0;
            for (int round = 0; round < 6; round++) { std::vector<std::thread> ts; for (int t = 0; t < conc; t++) ts.emplace_back([&] { w.f(uses); }); for (auto &t : ts) t.join();
                if (round == 1) { base_blocks = vf_live_blocks; base_bytes = vf_live_bytes; }
                if (round > 1 && vf_guard_mode() >= 0 && (vf_live_blocks > base_blocks || vf_live_bytes > base_bytes + 4096)) { violation(key, fmt("after %d create/use/exit rounds of %d thread(s) (%s): %ld live heap blocks (%ld bytes), after 2 rounds: %ld (%ld bytes): per-thread state is not released at thread exit", round + 1, conc, w.name, (long)vf_live_blocks, (long)vf_live_bytes, base_blocks, base_bytes)); break; } }
            eval(6); if (uses) nontrivial(1); outcome(mix(conc, uses)); }, 600);
        if (f.died()) violation(key, "process died: " + fate_str(f) + " " + f.text.substr(0, 400));
    }
    sample("threads/work=gates/concurrent=3/uses=1: 6 rounds of {3 threads: NAND + MUX with a shared k=2 cloud key (first use constructs the thread's FFT processor), exit}; live blocks/bytes after round k+1 <= after round 2");
}

// ownership hand-off between threads: an object allocated (and used) by one thread is used and deleted by another after the first has exited —
// no object may keep a pointer into the per-thread FFT state of the thread that created it
#include <tgsw_functions.h>
#include <tlwe_functions.h>
static void part_handoff() {
    const int N = 1024; IntPolynomial *a = new_IntPolynomial(N); TorusPolynomial *b = new_TorusPolynomial(N); for (int i = 0; i < N; i++) { a->coefs[i] = i % 7 - 3; b->coefsT[i] = (Torus32)(i * 2654435761u); }
    static const char *NAMES[] = {"lagrange-made-by-worker", "lagrange-made-by-main-filled-by-worker", "tgsw-fft-made-by-worker", "keyset-made-by-worker", "lagrange-array-made-by-worker-used-by-second-worker"};
    for (int sc = 0; sc < 5; sc++) for (int warm = 0; warm < 2; warm++) {
        std::string key = fmt("handoff/%s/main-used-fft-before=%d", NAMES[sc], warm);
        if (!take(key)) continue; if (deadline()) return; current(key);
        Fate f = forked([&] {
            TorusPolynomial *r = new_TorusPolynomial(N); bool ok = true; auto close = [&](const Torus32 *x, const Torus32 *y, int tol) { for (int i = 0; i < N; i++) { int64_t d = ref::sdiff(x[i], y[i]); if (d > tol || d < -tol) return false; } return true; };
            if (warm) torusPolynomialMultFFT(r, a, b);
            if (sc == 0) { LagrangeHalfCPolynomial *L = nullptr; std::thread t([&] { L = new_LagrangeHalfCPolynomial(N); TorusPolynomial_ifft(L, b); }); t.join(); TorusPolynomial_fft(r, L); ok = close(r->coefsT, b->coefsT, 1); TorusPolynomial_ifft(L, b); TorusPolynomial_fft(r, L); ok = ok && close(r->coefsT, b->coefsT, 1); delete_LagrangeHalfCPolynomial(L); }
            else if (sc == 1) { LagrangeHalfCPolynomial *L = new_LagrangeHalfCPolynomial(N); std::thread t([&] { TorusPolynomial_ifft(L, b); }); t.join(); TorusPolynomial_fft(r, L); ok = close(r->coefsT, b->coefsT, 1); delete_LagrangeHalfCPolynomial(L); }
            else if (sc == 2) { TLweParams *tp = new_TLweParams(N, 2, 0., 0.25); TGswParams *gp = new_TGswParams(2, 10, tp); TGswSampleFFT *gf = nullptr; TLweSampleFFT *tf = nullptr; TLweSample *acc = new_TLweSample(tp), *acc2 = new_TLweSample(tp);
                std::thread t([&] { TGswSample *g = new_TGswSample(gp); tGswClear(g, gp); tGswAddMuIntH(g, 1, gp); gf = new_TGswSampleFFT(gp); tGswToFFTConvert(gf, g, gp); tf = new_TLweSampleFFT(tp); delete_TGswSample(g); }); t.join();
                for (int i = 0; i <= 2; i++) for (int j = 0; j < N; j++) acc->a[i].coefsT[j] = (Torus32)((i * 31 + j) * 2654435761u); tLweCopy(acc2, acc, tp);
                tGswFFTExternMulToTLwe(acc, gf, gp);   // trivial TGSW of 1: the result is acc up to the gadget truncation
                for (int i = 0; i <= 2 && ok; i++) ok = close(acc->a[i].coefsT, acc2->a[i].coefsT, (1 << 12) + 8);
                tLweToFFTConvert(tf, acc2, tp); tLweFromFFTConvert(acc, tf, tp); for (int i = 0; i <= 2 && ok; i++) ok = close(acc->a[i].coefsT, acc2->a[i].coefsT, 1);
                delete_TGswSampleFFT(gf); delete_TLweSampleFFT(tf); delete_TLweSample(acc); delete_TLweSample(acc2); delete_TGswParams(gp); delete_TLweParams(tp); }
            else if (sc == 3) { SK *sk = nullptr; TFheGateBootstrappingParameterSet *ps = nullptr; LweSample *in = nullptr;
                std::thread t([&] { uint32_t sd[2] = {3, 16}; tfhe_random_generator_setSeed(sd, 2); LweParams *lp = new_LweParams(6, 1e-9, 0.01); TLweParams *tp = new_TLweParams(N, 1, 1e-10, 0.01); TGswParams *gp = new_TGswParams(2, 10, tp); ps = new TFheGateBootstrappingParameterSet(4, 2, lp, gp);
                    sk = new_random_gate_bootstrapping_secret_keyset(ps); in = new_gate_bootstrapping_ciphertext_array(3, ps); for (int q = 0; q < 3; q++) bootsSymEncrypt(in + q, q & 1, sk); }); t.join();
                LweSample *o = new_gate_bootstrapping_ciphertext(ps); bootsNAND(o, in, in + 1, &sk->cloud); ok = bootsSymDecrypt(o, sk) == 1; bootsMUX(o, in + 1, in, in + 2, &sk->cloud); ok = ok && bootsSymDecrypt(o, sk) == 0;
                std::thread t2([&] { bootsXOR(o, in + 1, in + 2, &sk->cloud); }); t2.join(); ok = ok && bootsSymDecrypt(o, sk) == 1;
                delete_gate_bootstrapping_ciphertext(o); delete_gate_bootstrapping_ciphertext_array(3, in); delete_gate_bootstrapping_secret_keyset(sk); delete_gate_bootstrapping_parameters(ps); }
            else { LagrangeHalfCPolynomial *L = nullptr; std::thread t([&] { L = new_LagrangeHalfCPolynomial_array(3, N); IntPolynomial_ifft(L, a); TorusPolynomial_ifft(L + 1, b); }); t.join();
                std::thread t2([&] { LagrangeHalfCPolynomialMul(L + 2, L, L + 1); TorusPolynomial_fft(r, L + 2); }); t2.join(); TorusPolynomial *ex = new_TorusPolynomial(N); torusPolynomialMultKaratsuba(ex, a, b); ok = close(r->coefsT, ex->coefsT, 2);
                TorusPolynomial_fft(r, L + 1); ok = ok && close(r->coefsT, b->coefsT, 1); delete_TorusPolynomial(ex); delete_LagrangeHalfCPolynomial_array(3, L); }
            if (!ok) violation(key, fmt("wrong result after the object changed hands between threads (%s)", NAMES[sc]));
            delete_TorusPolynomial(r); eval(1); nontrivial(1); outcome(mix(sc, warm));
        }, 300);
        if (f.died()) violation(key, "process died: " + fate_str(f) + " " + f.text.substr(0, 400));
    }
    sample("handoff/tgsw-fft-made-by-worker/main-used-fft-before=0: a worker thread allocates and fills a TGswSampleFFT and a TLweSampleFFT and exits; the main thread then runs the FFT external product and the FFT conversions on them and deletes them");
}

// the four-step object API on caller-managed storage: alloc, init, [use every element the object owns], destroy, init AGAIN with other dimensions,
// use, destroy, free; and the array forms with 0, 1 and 3 elements.  Oracles: guard pages / ASan, and the live-block count returns to its baseline.
struct Dims { int n, N, k, l, Bgbit, t, bb; };
template <class F> static void touch32(int32_t *p, size_t n, F &&sink) { for (size_t i = 0; i < n; i++) p[i] = (int32_t)(i * 2654435761u); uint64_t h = 0; for (size_t i = 0; i < n; i++) h += (uint32_t)p[i]; sink(h); }
static void part_placement() {
    const Dims DA = {3, 1024, 1, 2, 10, 2, 1}, DB = {9, 1024, 2, 3, 7, 3, 2};
    struct T { const char *name; std::function<void(const Dims &, int)> cycle; };   // cycle(d, count): count < 0 = single object, else array form
    uint64_t sinkv = 0; auto sink = [&](uint64_t h) { sinkv += h; };
    auto P = [&](const Dims &d, LweParams *&lp, TLweParams *&tp, TGswParams *&gp) { lp = new_LweParams(d.n, 1e-5, 0.1); tp = new_TLweParams(d.N, d.k, 1e-9, 0.1); gp = new_TGswParams(d.l, d.Bgbit, tp); };
    auto Q = [&](LweParams *lp, TLweParams *tp, TGswParams *gp) { delete_TGswParams(gp); delete_TLweParams(tp); delete_LweParams(lp); };
#define CYCLE(TYPE, INITARGS, USE) [&](const Dims &d, int cnt) { LweParams *lp; TLweParams *tp; TGswParams *gp; P(d, lp, tp, gp); (void)lp; (void)tp; (void)gp; \
        if (cnt < 0) { TYPE *o = alloc_##TYPE(); for (int rep = 0; rep < 2; rep++) { init_##TYPE INITARGS(o); { TYPE *x = o; USE; } destroy_##TYPE(o); } free_##TYPE(o); } \
        else { TYPE *o = alloc_##TYPE##_array(cnt); for (int rep = 0; rep < 2; rep++) { init_##TYPE##_array INITARGS##_A(cnt, o); for (int e = 0; e < cnt; e++) { TYPE *x = o + e; USE; } destroy_##TYPE##_array(cnt, o); } free_##TYPE##_array(cnt, o); } Q(lp, tp, gp); }
#define A1(o) (o, d.N)
#define A1_A(c, o) (c, o, d.N)
#define A2(o) (o, lp)
#define A2_A(c, o) (c, o, lp)
#define A3(o) (o, tp)
#define A3_A(c, o) (c, o, tp)
#define A4(o) (o, gp)
#define A4_A(c, o) (c, o, gp)
#define A5(o) (o, d.n + 1, d.t, d.bb, lp)
#define A5_A(c, o) (c, o, d.n + 1, d.t, d.bb, lp)
#define A6(o) (o, d.t, d.bb, lp, gp)
#define A6_A(c, o) (c, o, d.t, d.bb, lp, gp)
#define A7(o) (o, d.n, 1e-3, 0.25)
#define A7_A(c, o) (c, o, d.n, 1e-3, 0.25)
#define A8(o) (o, d.N, d.k, 1e-3, 0.25)
#define A8_A(c, o) (c, o, d.N, d.k, 1e-3, 0.25)
#define A9(o) (o, d.l, d.Bgbit, tp)
#define A9_A(c, o) (c, o, d.l, d.Bgbit, tp)
    std::vector<T> types = {
        {"IntPolynomial", CYCLE(IntPolynomial, A1, touch32(x->coefs, d.N, sink))},
        {"TorusPolynomial", CYCLE(TorusPolynomial, A1, touch32(x->coefsT, d.N, sink))},
        {"LagrangeHalfCPolynomial", CYCLE(LagrangeHalfCPolynomial, A1, { TorusPolynomial *t = new_TorusPolynomial(d.N); touch32(t->coefsT, d.N, sink); LagrangeHalfCPolynomialClear(x); TorusPolynomial_ifft(x, t); LagrangeHalfCPolynomialAddTo(x, x); TorusPolynomial_fft(t, x); sink(t->coefsT[1]); delete_TorusPolynomial(t); })},
        {"LweParams", CYCLE(LweParams, A7, sink(x->n))},
        {"LweKey", CYCLE(LweKey, A2, touch32(x->key, d.n, sink))},
        {"LweSample", CYCLE(LweSample, A2, { touch32(x->a, d.n, sink); x->b = 1; x->current_variance = 0; })},
        {"LweKeySwitchKey", CYCLE(LweKeySwitchKey, A5, { for (int i = 0; i < d.n + 1; i++) for (int j = 0; j < d.t; j++) for (int h = 0; h < (1 << d.bb); h++) { touch32(x->ks[i][j][h].a, d.n, sink); x->ks[i][j][h].b = h; } })},
        {"TLweParams", CYCLE(TLweParams, A8, sink(x->extracted_lweparams.n))},
        {"TLweKey", CYCLE(TLweKey, A3, { for (int i = 0; i < d.k; i++) touch32(x->key[i].coefs, d.N, sink); })},
        {"TLweSample", CYCLE(TLweSample, A3, { for (int i = 0; i <= d.k; i++) touch32(x->a[i].coefsT, d.N, sink); sink(x->b == x->a + d.k); })},
        {"TLweSampleFFT", CYCLE(TLweSampleFFT, A3, { tLweFFTClear(x, tp); for (int i = 0; i <= d.k; i++) LagrangeHalfCPolynomialAddTorusConstant(x->a + i, 5); })},
        {"TGswParams", CYCLE(TGswParams, A9, { for (int i = 0; i < d.l; i++) sink(x->h[i]); sink(x->offset); })},
        {"TGswKey", CYCLE(TGswKey, A4, { for (int i = 0; i < d.k; i++) touch32(x->key[i].coefs, d.N, sink); })},
        {"TGswSample", CYCLE(TGswSample, A4, { for (int q = 0; q < (d.k + 1) * d.l; q++) for (int i = 0; i <= d.k; i++) touch32(x->all_sample[q].a[i].coefsT, d.N, sink); sink(x->bloc_sample[d.k] == x->all_sample + d.k * d.l); })},
        {"TGswSampleFFT", CYCLE(TGswSampleFFT, A4, { for (int q = 0; q < (d.k + 1) * d.l; q++) for (int i = 0; i <= d.k; i++) LagrangeHalfCPolynomialClear(x->all_samples[q].a + i); })},
        {"LweBootstrappingKey", CYCLE(LweBootstrappingKey, A6, { for (int i = 0; i < d.n; i++) for (int q = 0; q < (d.k + 1) * d.l; q++) for (int c = 0; c <= d.k; c++) touch32(x->bk[i].all_sample[q].a[c].coefsT, d.N, sink); int tot = d.k * d.N * d.t * (1 << d.bb); for (int r = 0; r < tot; r++) touch32(x->ks->ks0_raw[r].a, d.n, sink); })},
    };
    for (auto &t : types) for (int shape = 0; shape < 4; shape++) {
        int cnt = shape == 0 ? -1 : shape == 1 ? 0 : shape == 2 ? 1 : 3;
        std::string key = fmt("placement/%s/%s", t.name, cnt < 0 ? "single" : fmt("array-of-%d", cnt).c_str());
        if (!take(key)) continue; if (deadline()) return; current(key);
        Fate f = forked([&] { t.cycle(DA, cnt);                        // warm-up (one-time allocations: per-thread FFT state, garbage collector)
            long b0 = vf_live_blocks, y0 = vf_live_bytes;
            for (int round = 0; round < 3; round++) { t.cycle(DA, cnt); t.cycle(DB, cnt); t.cycle(DA, cnt); }
            if (vf_guard_mode() >= 0 && (vf_live_blocks != b0 || vf_live_bytes != y0)) violation(key, fmt("%s: after alloc/init/destroy/init/destroy/free cycles with two dimension sets %ld heap blocks (%ld bytes) are live, before: %ld (%ld)", t.name, (long)vf_live_blocks, (long)vf_live_bytes, b0, y0));
            eval(9); nontrivial(1); outcome(mix(fnv(t.name, strlen(t.name)), cnt + 2)); }, 300);
        if (f.died()) violation(key, "process died: " + fate_str(f) + " " + f.text.substr(0, 400));
    }
    // the FFT key is initialised FROM a bootstrapping key
    { std::string key = "placement/LweBootstrappingKeyFFT/single+array"; if (take(key) && !deadline()) { current(key);
        Fate f = forked([&] { for (int round = 0; round < 3; round++) for (const Dims &d : {DA, DB}) { LweParams *lp; TLweParams *tp; TGswParams *gp; P(d, lp, tp, gp); LweBootstrappingKey *bk = new_LweBootstrappingKey(d.t, d.bb, lp, gp);
                for (int i = 0; i < d.n; i++) tGswClear(&bk->bk[i], gp); int tot = d.k * d.N * d.t * (1 << d.bb); for (int r = 0; r < tot; r++) lweClear(&bk->ks->ks0_raw[r], lp);
                LweBootstrappingKeyFFT *o = alloc_LweBootstrappingKeyFFT(); for (int rep = 0; rep < 2; rep++) { init_LweBootstrappingKeyFFT(o, bk); sink(o->ks->n); destroy_LweBootstrappingKeyFFT(o); } free_LweBootstrappingKeyFFT(o);
                for (int cnt : {0, 1, 2}) { LweBootstrappingKeyFFT *a = alloc_LweBootstrappingKeyFFT_array(cnt); init_LweBootstrappingKeyFFT_array(cnt, a, bk); destroy_LweBootstrappingKeyFFT_array(cnt, a); free_LweBootstrappingKeyFFT_array(cnt, a); }
                delete_LweBootstrappingKey(bk); Q(lp, tp, gp); }
            eval(6); nontrivial(1); outcome(0xFF7); }, 600);
        if (f.died()) violation(key, "process died: " + fate_str(f) + " " + f.text.substr(0, 400)); } }
    if (sinkv == 42) fprintf(stderr, " ");
    sample("placement/TGswSample/array-of-3: alloc_TGswSample_array(3); {init_..._array, write every coefficient of every row of every element, destroy_..._array} twice with (k,l)=(1,2) and (2,3); free: no fault, live heap blocks back to the baseline");
}

int main(int argc, char **argv) {
    init(argc, argv);
    { std::string pre = std::string(VF_VARIANT) + "/" + S().backend + "/"; if (!S().only.compare(0, pre.size(), pre)) S().only = S().only.substr(pre.size()); } // replay of a cross-job digest comparison
    std::string part = opt("part", "all");
    if (part == "all" || part == "cells") part_cells();
    if (part == "all" || part == "threads") part_threads();
    if (part == "all" || part == "handoff") part_handoff();
    if (part == "all" || part == "placement") part_placement();
    return finish();
}
