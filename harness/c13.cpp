// C13 — torus rounding / modulus switch round to nearest exactly.
// Space: all 2^32 phases for a list of M (chunks of 2^24 phases are the enumerated cases), all M in [2,2^15] on the
// boundary alphabet, all mu in [0,M), all 2^32 torus values for the conversion identity.
#include "vf.hpp"
#include "ref.hpp"
#include <tfhe.h>
#include <numeric_functions.h>

using namespace vf;

static void sweep_phase_chunk(int64_t M, uint32_t chunk) {
    std::string key = fmt("modswitch/M=%lld/chunk=%u", (long long)M, chunk);
    current(key);
    uint64_t nt = 0;
    for (uint64_t i = 0; i < (1u << 24); i++) {
        uint32_t ph = (chunk << 24) | (uint32_t)i;
        int32_t got = modSwitchFromTorus32((Torus32)ph, (int32_t)M);
        bool tie; int64_t want = ref::round_mod(ph, M, &tie);
        bool ok = got == want || (tie && got == (want + M - 1) % M);
        if (!ok || got < 0 || got >= M) { violation(key, fmt("modSwitchFromTorus32(0x%08x, %lld) = %d, nearest integer is %lld%s", ph, (long long)M, got, (long long)want, tie ? " (tie)" : "")); break; }
        Torus32 ap = approxPhase((Torus32)ph, (int32_t)M);
        Torus32 enc = modSwitchToTorus32(got, (int32_t)M);
        if (ap != enc) { violation(key, fmt("approxPhase(0x%08x, %lld) = 0x%08x but the torus encoding of the nearest integer %d is 0x%08x", ph, (long long)M, (uint32_t)ap, got, (uint32_t)enc)); break; }
        if (ref::boundary_dist(ph, M) <= (uint64_t)(2 * M)) nt++;
        if ((i & 0xFFFFF) == 0) outcome(mix(M, (uint64_t)got));
    }
    eval(1u << 24); nontrivial(nt);
    if (chunk == 0x80) sample(fmt("M=%lld phases 0x%08x..0x%08x: modSwitchFromTorus32/approxPhase vs 128-bit round(M*phase/2^32) mod M", (long long)M, chunk << 24, (chunk << 24) | 0xFFFFFF));
}

// encoding accuracy + round trip for every mu of one M
static void roundtrip_M(int64_t M) {
    std::string key = fmt("roundtrip/M=%lld", (long long)M);
    current(key);
    for (int64_t mu = 0; mu < M; mu++) {
        Torus32 e = modSwitchToTorus32((int32_t)mu, (int32_t)M);
        // exact value mu*2^32/M ; encoding must be within 2 units of it (mod 2^32)
        ref::u128 num = (ref::u128)(uint64_t)mu << 32; uint64_t fl = (uint64_t)(num / (uint64_t)M);
        int64_t d = ref::sdiff(e, (Torus32)(uint32_t)fl);
        if (d > 2 || d < -2) { violation(key, fmt("modSwitchToTorus32(%lld,%lld)=0x%08x is %lld units from mu*2^32/M", (long long)mu, (long long)M, (uint32_t)e, (long long)d)); break; }
        int32_t back = modSwitchFromTorus32(e, (int32_t)M);
        if (back != mu) { violation(key, fmt("modSwitchFromTorus32(modSwitchToTorus32(%lld,%lld)) = %d", (long long)mu, (long long)M, back)); break; }
    }
    eval(M); nontrivial(M > 2 ? M - 2 : 0);
}

// boundary alphabet for one M: around k*2^32/M and (k+1/2)*2^32/M, each -2..+2
static std::string g_prefix;
static void boundary_M(int64_t M) {
    std::string key = g_prefix + fmt("boundary/M=%lld", (long long)M);
    current(key);
    uint64_t n = 0;
    for (int64_t k = 0; k < M; k++) {
        for (int half = 0; half < 2; half++) {
            ref::u128 num = (((ref::u128)(uint64_t)k << 1) + half) << 31; // (k + half/2) * 2^32
            uint64_t c = (uint64_t)((num + (uint64_t)M - 1) / (uint64_t)M); // ceil
            for (int d = -2; d <= 2; d++) {
                uint32_t ph = (uint32_t)(c + (uint64_t)(int64_t)d);
                int32_t got = modSwitchFromTorus32((Torus32)ph, (int32_t)M);
                bool tie; int64_t want = ref::round_mod(ph, M, &tie);
                bool ok = got == want || (tie && got == (want + M - 1) % M);
                if (!ok) { violation(key, fmt("modSwitchFromTorus32(0x%08x, %lld) = %d, nearest integer is %lld%s", ph, (long long)M, got, (long long)want, tie ? " (tie)" : "")); return; }
                Torus32 ap = approxPhase((Torus32)ph, (int32_t)M);
                if (ap != modSwitchToTorus32(got, (int32_t)M)) { violation(key, fmt("approxPhase(0x%08x,%lld)=0x%08x != encoding of %d", ph, (long long)M, (uint32_t)ap, got)); return; }
                n++;
            }
        }
    }
    eval(n); nontrivial(n);
    if (M == 1000) { sample("M=1000: for every k in [0,M): phases ceil(k*2^32/M)+d and ceil((k+1/2)*2^32/M)+d, d in -2..2"); }
    outcome(mix(0xB0, (uint64_t)modSwitchFromTorus32((Torus32)0x40000000, (int32_t)M)));
}

static void conv_chunk(uint32_t chunk) {
    std::string key = fmt("dtot32/chunk=%u", chunk);
    current(key);
    for (uint64_t i = 0; i < (1u << 24); i++) {
        uint32_t x = (chunk << 24) | (uint32_t)i;
        double d = t32tod((Torus32)x);
        if (dtot32(d) != (Torus32)x) { violation(key, fmt("dtot32(t32tod(0x%08x)) = 0x%08x", x, (uint32_t)dtot32(d))); break; }
        if (!(d >= -0.5 && d < 0.5)) { violation(key, fmt("t32tod(0x%08x) = %.17g outside [-1/2,1/2)", x, d)); break; }
        if ((i & 3) == (chunk & 3)) { // periodicity mod 1 on a quarter of the values per chunk (all residues covered over chunks)
            for (int k = -2; k <= 2; k++) if (k && dtot32(d + k) != (Torus32)x) { violation(key, fmt("dtot32(t32tod(0x%08x)%+d) = 0x%08x", x, k, (uint32_t)dtot32(d + k))); i = 1u << 24; break; }
        }
        if ((i & 0xFFFFF) == 0) outcome(mix(0xC0, x));
    }
    eval(1u << 24); nontrivial((1u << 24) - (chunk == 0 ? 1 : 0));
    if (chunk == 1) sample("x in 0x01000000..0x01ffffff: dtot32(t32tod(x)) == x, dtot32(t32tod(x)+k) == x for k in {-2,-1,1,2}");
}

// histories over threads and message spaces: results must not depend on which M this or another thread used before
#include <thread>
static void thread_histories() {
    const int64_t MS[] = {2048, 8, 6, 3, 1000, 1 << 20};
    for (int64_t a : MS) for (int64_t b : MS) { if (a == b) continue;
        std::string key = fmt("thread-history/M=%lld-then-other-thread-M=%lld-then-M=%lld", (long long)a, (long long)b, (long long)a);
        if (!take(key)) continue; current(key);
        auto probe = [&](int64_t M, const char *when) { for (uint32_t i = 0; i < 4096; i++) { uint32_t ph = i * 1048583u + 12345u; bool tie; int64_t want = ref::round_mod(ph, M, &tie); int32_t got = modSwitchFromTorus32((Torus32)ph, (int32_t)M);
            if (!(got == want || (tie && got == (want + M - 1) % M))) { violation(key, fmt("%s: modSwitchFromTorus32(0x%08x, %lld) = %d, nearest integer is %lld", when, ph, (long long)M, got, (long long)want)); return false; }
            if (approxPhase((Torus32)ph, (int32_t)M) != modSwitchToTorus32(got, (int32_t)M)) { violation(key, fmt("%s: approxPhase(0x%08x, %lld) is not the encoding of %d", when, ph, (long long)M, got)); return false; } } return true; };
        bool ok = probe(a, "first use"); if (ok) { std::thread t([&] { ok = probe(b, "on a second thread"); }); t.join(); } if (ok) ok = probe(a, "again on the first thread after another thread used another M"); if (ok) probe(b, "then the other M on the first thread");
        eval(4 * 4096); nontrivial(1); outcome(mix(a, b));
    }
    sample("thread-history/M=2048-then-other-thread-M=6-then-M=2048: 4096 phases each step against the 128-bit oracle");
}
// floating-point environment: the functions are specified on integers; a caller running with another rounding mode must get the same answers
#include <cfenv>
static void fenv_cases() {
    struct { int mode; const char *name; } MODES[] = {{FE_TOWARDZERO, "towardzero"}, {FE_UPWARD, "upward"}, {FE_DOWNWARD, "downward"}};
    for (auto md : MODES) {
        std::vector<int64_t> Ms; for (int64_t M = 2; M <= 2048; M++) Ms.push_back(M); for (int b = 12; b <= 22; b++) Ms.push_back((int64_t)1 << b); Ms.push_back(32767); Ms.push_back(32768);
        for (int64_t M : Ms) { g_prefix = fmt("fenv=%s/", md.name); if (take(g_prefix + fmt("boundary/M=%lld", (long long)M))) { if (deadline()) { g_prefix.clear(); return; } fesetround(md.mode); boundary_M(M); fesetround(FE_TONEAREST); } }
        g_prefix.clear();
        std::string key = fmt("fenv=%s/dtot32", md.name);
        if (take(key) && !deadline()) { current(key); fesetround(md.mode); bool ok = true;
            for (uint32_t i = 0; i < (1u << 16) && ok; i++) { uint32_t x = i * 65537u + (i >> 3); double d = t32tod((Torus32)x); if (dtot32(d) != (Torus32)x || dtot32(d + 1) != (Torus32)x || dtot32(d - 1) != (Torus32)x) { fesetround(FE_TONEAREST); violation(key, fmt("rounding mode %s: dtot32(t32tod(0x%08x) [+-1]) != x", md.name, x)); ok = false; } }
            fesetround(FE_TONEAREST); eval(3u << 16); nontrivial(3u << 16); outcome(mix(0xFE, md.mode)); }
    }
    sample("fenv=upward/boundary/M=1000: the boundary alphabet of M=1000 evaluated by a thread whose floating-point rounding mode is FE_UPWARD");
}
// real-to-torus conversion is periodic modulo 1 for every real the type can carry with a fractional part: d = t32tod(x) +- 2^e, e up to 50;
// expected value computed from the double's integer mantissa (trunc(d*2^32) mod 2^32), independent of the library's arithmetic
// the two integers adjacent to d*2^32 (equal when d*2^32 is an integer), modulo 2^32: whether the conversion truncates, floors or rounds to nearest is
// not part of the contract - only that the result is the real number d modulo 1, to the unit
static void dtot32_exact(double d, int32_t *lo, int32_t *hi) {
    if (d == 0) { *lo = *hi = 0; return; } int ex; double m = frexp(d, &ex); int64_t mant = (int64_t)ldexp(m, 53); int shift = ex - 53 + 32; bool neg = mant < 0; ref::u128 a = (ref::u128)(uint64_t)(neg ? -mant : mant);
    uint32_t fl, ce; if (shift >= 0) { fl = ce = shift >= 64 ? 0u : (uint32_t)(uint64_t)(a << shift); } else { int sh = -shift; ref::u128 q = sh >= 64 ? 0 : a >> sh; bool exact = sh < 64 && (q << sh) == a; fl = (uint32_t)(uint64_t)q; ce = exact ? fl : fl + 1; }
    if (neg) { uint32_t t = 0u - ce; ce = 0u - fl; fl = t; }   // floor <= value <= ceil also for negative values
    *lo = (int32_t)fl; *hi = (int32_t)ce;
}
static void periodic_large() {
    for (int e = 0; e <= 50; e++) {
        std::string key = fmt("dtot32-large/e=%d", e); if (!take(key)) continue; if (deadline()) return; current(key); bool ok = true;
        for (uint32_t i = 0; i < 8192 && ok; i++) { uint32_t x = i < 64 ? (i < 32 ? (1u << i) : 0u - (1u << (i - 32))) : i * 524309u + 77u;
            for (int sgn = -1; sgn <= 1 && ok; sgn += 2) for (int mult = 1; mult <= 3 && ok; mult += 2) { double d = t32tod((Torus32)x) + sgn * mult * ldexp(1.0, e); Torus32 got = dtot32(d), lo, hi; dtot32_exact(d, &lo, &hi);
                if (e <= 19 && (lo != (Torus32)x || hi != (Torus32)x)) { violation(key, fmt("harness self-check: exact conversion of t32tod(0x%08x)%+g gives 0x%08x..0x%08x", x, sgn * mult * ldexp(1.0, e), (uint32_t)lo, (uint32_t)hi)); ok = false; }
                if (got != lo && got != hi) { violation(key, fmt("dtot32(t32tod(0x%08x) %c %d*2^%d) = 0x%08x, the real number %.17g is 0x%08x..0x%08x modulo 1", x, sgn < 0 ? '-' : '+', mult, e, (uint32_t)got, d, (uint32_t)lo, (uint32_t)hi)); ok = false; } } }
        eval(4 * 8192); nontrivial(4 * 8192); outcome(mix(0xD7, e));
    }
    sample("dtot32-large/e=40: dtot32(t32tod(x) +- {1,3}*2^40) for 8192 x is one of the two integers adjacent to d*2^32 (mod 2^32) computed from the mantissa of d: periodicity modulo 1 far from the origin, exact wherever d*2^32 is an integer");
}
int main(int argc, char **argv) {
    init(argc, argv);
    thread_histories();
    if (opt("light") != "1") { fenv_cases(); periodic_large(); }
    std::vector<int64_t> Ms = quick() ? std::vector<int64_t>{2048, 8, 3, 1000}
                                      : std::vector<int64_t>{2, 3, 4, 5, 7, 8, 16, 1000, 1024, 2048, 4096, 32768, (int64_t)1 << 30};
    if (!opt("ms").empty()) { Ms.clear(); std::string v = opt("ms"); size_t q = 0; while (q < v.size()) { size_t e = v.find(',', q); if (e == std::string::npos) e = v.size(); Ms.push_back(atoll(v.substr(q, e - q).c_str())); q = e + 1; } }
    bool light = opt("light") == "1"; // second build in the quick tier: the full sweeps for the listed M and the all-M boundary alphabet only
    for (int64_t M : Ms)
        for (uint32_t c = 0; c < 256; c++) { std::string key = fmt("modswitch/M=%lld/chunk=%u", (long long)M, c); if (take(key)) { if (deadline()) break; sweep_phase_chunk(M, c); } }
    for (int64_t M = 2; M <= 32768; M++) { if (take(fmt("boundary/M=%lld", (long long)M))) { if (deadline()) break; boundary_M(M); } }
    if (!light) for (int64_t M = 2; M <= 32768; M++) { if (take(fmt("roundtrip/M=%lld", (long long)M))) { if (deadline()) break; roundtrip_M(M); } }
    if (!light) for (int b = 16; b <= 30; b++) { int64_t M = (int64_t)1 << b; if (take(fmt("roundtrip/M=%lld", (long long)M))) { if (deadline()) break; roundtrip_M(M); }
                                     if (take(fmt("boundary/M=%lld", (long long)M))) { if (deadline()) break; if (b <= 22 || thorough()) boundary_M(M); } }
    if (!light) for (uint32_t c = 0; c < 256; c++) { if (quick() && (c % 4) != (uint32_t)(S().seed & 3)) continue; if (take(fmt("dtot32/chunk=%u", c))) { if (deadline()) break; conv_chunk(c); } }
    return finish();
}
