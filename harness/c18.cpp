// C18 — truncated or mistyped serialized input is never accepted silently.
// Crash points: every proper prefix of every export; substitutions: export of type A fed to importer B; corruptions: every byte of
// every title line and of every binary type tag replaced by {0x00,0xFF,b+1,b-1,'\n'}.  Each import runs in a forked child.
// Acceptable outcomes: the process terminates (abort / null-page SEGV), or the C++ stream is left failed, or the importer returned
// an object that is a faithful, complete image of exactly the bytes it consumed (re-export == consumed input, modulo a missing final newline).
#include "vf.hpp"
#include "ioobjs.hpp"
#include <tfhe_generic_streams.h>
#include <set>
using namespace vf;
using namespace io;

static bool is_uid(uint32_t v) { static const int32_t U[] = {LWE_SAMPLE_TYPE_UID, TLWE_SAMPLE_TYPE_UID, TLWE_SAMPLE_FFT_TYPE_UID, TGSW_SAMPLE_TYPE_UID, TGSW_SAMPLE_FFT_TYPE_UID, LWE_KEY_TYPE_UID, TLWE_KEY_TYPE_UID, TGSW_KEY_TYPE_UID, LWE_KEYSWITCH_KEY_TYPE_UID, LWE_BOOTSTRAPPING_KEY_TYPE_UID}; for (int32_t u : U) if ((uint32_t)u == v) return true; return false; }

// ---- in-process mode (sanitizer passes: fork is ~100 ms under ASan). abort() is interposed and null-page faults are caught,
// both unwind to the case loop with siglongjmp; anything ASan reports still kills the process and is attributed by the driver.
#include <setjmp.h>
static sigjmp_buf g_jb; static volatile int g_armed = 0; static bool g_inproc = false;
extern "C" void abort(void) { if (g_armed) siglongjmp(g_jb, 2); signal(SIGABRT, SIG_DFL); raise(SIGABRT); _exit(134); }
static void on_segv(int, siginfo_t *si, void *) { if (g_armed && (uintptr_t)si->si_addr < 65536) siglongjmp(g_jb, 3); signal(SIGSEGV, SIG_DFL); fprintf(stderr, "VF-WILD-SEGV at %p\n", si->si_addr); raise(SIGSEGV); }

enum Verdict { TERMINATED, FAILED_STREAM, FAITHFUL, SILENT, MEMERR, HUNG };
static const char *VN[] = {"terminated", "failed-stream", "faithful-object", "SILENT-ACCEPT", "MEMORY-ERROR", "timeout"};

// run importer T on `input` in a child; classify
static Verdict try_import_forked(World &w, Type &T, bool file, const std::string &input, std::string &detail);
static Verdict try_import(World &w, Type &T, bool file, const std::string &input, std::string &detail) {
    if (!g_inproc) return try_import_forked(w, T, file, input, detail);
    int fd2 = -1; static int devnull = open("/dev/null", O_WRONLY);
    In *in = new In(file, input); void *volatile h = nullptr; volatile bool returned = false;
    fflush(stderr); fd2 = dup(2); dup2(devnull, 2);              // the parser prints "ignoring: <line>" for every unparsable line
    g_armed = 1; int j = sigsetjmp(g_jb, 1);
    if (j == 0) { try { h = T.imp(w, *in); returned = true; } catch (...) { returned = false; } }
    g_armed = 0; fflush(stderr); dup2(fd2, 2); close(fd2);
    if (!returned) return TERMINATED;                               // abort / null-page fault / uncaught exception: the process would have terminated
    if (!file && in->failed()) return FAILED_STREAM;
    if (!h) return FAILED_STREAM;
    long pos = in->pos(); if (pos < 0 || pos > (long)input.size()) pos = (long)input.size();
    std::string re; g_armed = 1; j = sigsetjmp(g_jb, 1);
    if (j == 0) { try { Out o(file); T.reexp((void *)h, w, o); re = o.bytes(); } catch (...) { j = 9; } }
    g_armed = 0;
    if (j != 0) { detail = "returned normally with a clean stream, then the returned object could not even be re-exported"; return SILENT; }
    std::string consumed = input.substr(0, (size_t)pos);
    if (re == consumed || re == consumed + "\n") return FAITHFUL;
    detail = fmt("returned normally%s after consuming %ld of %zu input bytes; the object re-exports to %zu bytes that are not the consumed input", file ? "" : " with a clean stream", pos, input.size(), re.size());
    return SILENT;
}
static Verdict try_import_forked(World &w, Type &T, bool file, const std::string &input, std::string &detail) {
    std::string k0 = curkey();
    Fate f = forked([&] {
        In in(file, input);
        void *h = T.imp(w, in);
        bool failed = in.failed();
        if (!file && failed) { stat_sum("v_failed", 1); return; }
        if (!h) { stat_sum("v_null", 1); return; }           // returned NULL: nothing handed to the caller (cannot happen with this API, kept for completeness)
        long pos = in.pos(); if (pos < 0 || pos > (long)input.size()) pos = (long)input.size();
        current(k0 + "#returned-clean");
        Out o(file); T.reexp(h, w, o); std::string re = o.bytes();
        std::string consumed = input.substr(0, (size_t)pos);
        if (re == consumed || re == consumed + "\n") stat_sum("v_faithful", 1);
        else { stat_sum("v_silent", 1); violation("x", fmt("returned normally%s after consuming %ld of %zu input bytes; the object re-exports to %zu bytes that are not the consumed input", file ? "" : " with a clean stream", pos, input.size(), re.size())); }
    }, 60, true, true);   // strict: an import that does not terminate within 60 s is a verdict
    std::string cur = curkey(); current(k0);
    bool asan = f.text.find("AddressSanitizer") != std::string::npos;
    if (asan) { bool nullpage = f.text.find("SEGV on unknown address 0x000000000") != std::string::npos || f.text.find("SEGV on unknown address (pc") != std::string::npos;
        if (!nullpage || f.text.find("heap-buffer-overflow") != std::string::npos || f.text.find("use-after-free") != std::string::npos || f.text.find("stack-buffer-overflow") != std::string::npos) { detail = f.text.substr(0, 400); return MEMERR; } }
    if (f.kind == Fate::TIMEOUT) { detail = "import did not terminate within 60 s"; return HUNG; }
    if (f.died()) { if (cur.size() > 15 && cur.compare(cur.size() - 15, 15, "#returned-clean") == 0) { detail = "returned normally with a clean stream, then the returned object could not even be re-exported (" + fate_str(f) + ")"; return SILENT; } return TERMINATED; }
    // child returned: look at what it recorded (absorbed into our stats; violations carry key "x")
    auto &vs = S().violations; for (size_t i = 0; i < vs.size(); i++) if (vs[i].key == "x") { detail = vs[i].msg; vs.erase(vs.begin() + i); return SILENT; }
    auto &st = S().stats; if (st["sum_v_failed"] > 0) { st["sum_v_failed"] = 0; return FAILED_STREAM; } if (st["sum_v_faithful"] > 0) { st["sum_v_faithful"] = 0; return FAITHFUL; } if (st["sum_v_null"] > 0) { st["sum_v_null"] = 0; return FAILED_STREAM; }
    detail = "child returned without a verdict"; return SILENT;
}

static std::map<std::string, long> modes;
static void record(const std::string &key, Verdict v, const std::string &detail, const char *what) {
    modes[VN[v]]++; outcome(fnv(VN[v], strlen(VN[v])));
    if (v == SILENT) violation(key, std::string(what) + ": " + detail);
    else if (v == MEMERR) violation(key, std::string(what) + ": memory error while importing: " + detail);
    else if (v == HUNG) violation(key, std::string(what) + ": " + detail);
}

static Cfg big_cfg(int content) { Cfg c; c.n = 3; c.N = 2048; c.k = 1; c.l = 1; c.Bgbit = 8; c.t = 2; c.basebit = 1; c.content = content; c.seed = 13; c.keysets = false; c.la_min = 0.1; c.la_max = 0.3; c.ta_min = 7.18e-9; c.ta_max = 0.012467; return c; }
static Cfg small_cfg(bool keysets, int content) { Cfg c; c.n = keysets ? 2 : 3; c.N = keysets ? 1024 : 2; c.k = 1; c.l = 1; c.Bgbit = 8; c.t = 2; c.basebit = 1; c.content = content; c.seed = 11; c.keysets = keysets; c.la_min = 0.1; c.la_max = 0.3; c.ta_min = 7.18e-9; c.ta_max = 0.012467; return c; }

int main(int argc, char **argv) {
    init(argc, argv);
    auto &T = types(); int nt = (int)T.size();
    g_inproc = opt("inproc", "0") == "1";
    if (g_inproc) { struct sigaction sa; memset(&sa, 0, sizeof sa); sa.sa_sigaction = on_segv; sa.sa_flags = SA_SIGINFO | SA_NODEFER; sigaction(SIGSEGV, &sa, nullptr); sigaction(SIGBUS, &sa, nullptr); }
    bool noks = opt("keysets", "1") == "0";   // sanitizer passes of the quick tier skip the two N=1024 key sets (fork cost under ASan)
    World wsmall(small_cfg(false, 1)), wsmall2(small_cfg(false, 2)), wks(small_cfg(!noks, 1)), wks2(small_cfg(!noks, 2));
    World wbig(big_cfg(1)), wbig2(big_cfg(2));   // ring dimension 2048: every coefficient array is larger than 4096 bytes (bulk-read paths)
    std::string part = opt("part", "all");
    for (int pass = 0; pass < 2; pass++)
    for (int t = 0; t < nt; t++) for (int file = 0; file < 2; file++) {
        bool big = pass == 1; if (big && (T[t].needs_keysets || T[t].text_only || (strcmp(T[t].name, "TLweSample") && strcmp(T[t].name, "TLweKey") && strcmp(T[t].name, "TGswSample") && strcmp(T[t].name, "TGswKey") && strcmp(T[t].name, "LweBootstrappingKey")))) continue;
        if (noks && T[t].needs_keysets) continue;
        World &w = big ? wbig : T[t].needs_keysets ? wks : wsmall; World &w2 = big ? wbig2 : T[t].needs_keysets ? wks2 : wsmall2;
        std::string tname = std::string(T[t].name) + (big ? "@N=2048" : "");
        Out o(file); T[t].exp(w, o); std::string bytes = o.bytes(); Out o2(file); T[t].exp(w2, o2); std::string bytes2 = o2.bytes();
        size_t L = bytes.size();
        // structure: title-line bytes and tag bytes
        std::set<size_t> title, tag, boundary;
        for (size_t p = 0; p < L;) { size_t e = bytes.find('\n', p); if (e == std::string::npos) e = L; if (bytes.compare(p, 5, "-----") == 0 && e - p < 80) { for (size_t q = p; q <= e && q < L; q++) title.insert(q); boundary.insert(p); boundary.insert(e + 1); } if (bytes[p] == '-' || (p < L && bytes[p] >= 0x20 && bytes[p] < 0x7f && e - p < 80)) p = e + 1; else break; }
        if (bytes2.size() == L) for (size_t p = 0; p + 4 <= L; p++) { uint32_t a, b; memcpy(&a, &bytes[p], 4); memcpy(&b, &bytes2[p], 4); if (a == b && is_uid(a) && !title.count(p)) { bool text = true; for (int q = 0; q < 4; q++) if ((unsigned char)bytes[p + q] < 0x20 && bytes[p + q] != '\n') text = false; if (!text) { for (int q = 0; q < 4; q++) tag.insert(p + q); boundary.insert(p); } } }
        // text sections also appear after binary ones in composite objects: scan for "-----BEGIN"/"-----END" anywhere
        for (size_t p = bytes.find("-----"); p != std::string::npos; p = bytes.find("-----", p + 1)) { if (p && bytes[p - 1] != '\n') continue; size_t e = bytes.find('\n', p); if (e == std::string::npos || e - p > 80) continue; if (bytes.compare(p, 10, "-----BEGIN") && bytes.compare(p, 8, "-----END")) continue; for (size_t q = p; q <= e; q++) title.insert(q); boundary.insert(p); boundary.insert(e + 1); }
        stat_max(fmt("export_bytes/%s", T[t].name), (double)L); stat_max(fmt("tag_bytes/%s", T[t].name), (double)tag.size()); stat_max(fmt("title_bytes/%s", T[t].name), (double)title.size());

        // ---- (1) crash points: proper prefixes
        if (part == "all" || part == "prefix") {
            std::vector<size_t> cuts;
            if (L <= 65536 && !big) for (size_t p = 0; p < L; p++) cuts.push_back(p);
            else { std::set<size_t> c; for (size_t b : boundary) for (long d = -32; d <= 32; d++) { long q = (long)b + d; if (q >= 0 && q < (long)L) c.insert((size_t)q); } for (size_t p = 0; p < L; p += 509) c.insert(p); for (size_t p = L > 64 ? L - 64 : 0; p < L; p++) c.insert(p); cuts.assign(c.begin(), c.end()); S().exhaustive = S().exhaustive; info(fmt("prefix_subset/%s", tname.c_str()), fmt("%zu of %zu offsets (within 32 bytes of every section/tag boundary + stride 509 + last 64)", cuts.size(), L)); }
            for (size_t p : cuts) {
                std::string key = fmt("prefix/%s/%s/len=%zu", tname.c_str(), file ? "FILE" : "stream", p);
                if (!take(key)) continue; if (deadline()) break; current(key);
                std::string detail; Verdict v = try_import(w, T[t], file, bytes.substr(0, p), detail);
                record(key, v, detail, "truncated export"); eval(1); nontrivial(1);
            }
        }
        // ---- (2) corruptions of title lines and type tags
        if (!big && (part == "all" || part == "corrupt")) {
            std::vector<size_t> pos(title.begin(), title.end()); pos.insert(pos.end(), tag.begin(), tag.end());
            for (size_t p : pos) for (int r = 0; r < 5; r++) {
                unsigned char b = (unsigned char)bytes[p], nb = r == 0 ? 0x00 : r == 1 ? 0xFF : r == 2 ? b + 1 : r == 3 ? b - 1 : '\n';
                if (nb == b) continue;
                std::string key = fmt("corrupt/%s/%s/offset=%zu/%s/byte=0x%02x", T[t].name, file ? "FILE" : "stream", p, tag.count(p) ? "tag" : "title", nb);
                if (!take(key)) continue; if (deadline()) break; current(key);
                std::string in = bytes; in[p] = (char)nb; std::string detail; Verdict v = try_import(w, T[t], file, in, detail);
                record(key, v, detail, "corrupted title/tag byte"); eval(1); nontrivial(1);
            }
        }
        // ---- (3) substitutions: this export fed to every other importer
        if (!big && (part == "all" || part == "subst")) for (int u = 0; u < nt; u++) { if (u == t || (noks && T[u].needs_keysets)) continue;
            std::string key = fmt("subst/%s-into-%s/%s", T[t].name, T[u].name, file ? "FILE" : "stream");
            if (!take(key)) continue; if (deadline()) break; current(key);
            World &wu = (T[u].needs_keysets || T[t].needs_keysets) ? wks : wsmall;   // the importer's own parameter objects
            std::string in = bytes; if (&wu != &w) { Out ox(file); T[t].exp(wu, ox); in = ox.bytes(); }
            std::string detail; Verdict v = try_import(wu, T[u], file, in, detail);
            record(key, v, detail, "object of another type"); eval(1); nontrivial(1);
        }
    }
    for (auto &m : modes) stat_sum(std::string("mode/") + m.first, (double)m.second);
    sample("prefix/LweKey/stream/len=57: first 57 bytes of an LweKey export -> importer must terminate or leave the stream failed");
    sample("corrupt/TGswSample/FILE/offset=2/tag/byte=0xff: third byte of the TGSW_SAMPLE type tag replaced"); sample("subst/LweKeySwitchKey-into-TLweKey/FILE");
    return finish();
}
