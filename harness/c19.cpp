// C19 — default parameter selection: every lambda in [-5,300] + INT32_MIN/INT32_MAX, each in a forked child.
#include "vf.hpp"
#include <tfhe.h>
#include <cmath>
#include <algorithm>
#include <pthread.h>
using namespace vf;

struct Doc { int n; double ks_sd; int N, k; double bk_sd; int l, Bgbit, t, basebit; double max_sd; double bound; };
// documented sets: README "Security estimates and parameter choices" (128-bit) and the 2016 historic set (80-bit)
static const Doc DOC80 = {500, 2.44e-5, 1024, 1, 7.18e-9, 2, 10, 8, 2, 0.012467, 0.0047};
static const Doc DOC128 = {630, 3.0517578125e-05 /*2^-15*/, 1024, 1, 2.98023223876953125e-08 /*2^-25*/, 3, 7, 8, 2, 0.012467, 0.0037};

static std::string check_set(const TFheGateBootstrappingParameterSet *p, const Doc &d) {
    const LweParams *lp = p->in_out_params; const TGswParams *gp = p->tgsw_params; const TLweParams *tp = gp->tlwe_params;
    if (lp->n != d.n) return fmt("n=%d, documented %d", lp->n, d.n);
    if (lp->alpha_min != d.ks_sd) return fmt("LWE/key-switch stdev %.17g, documented %.17g", lp->alpha_min, d.ks_sd);
    if (lp->alpha_max != d.max_sd) return fmt("LWE alpha_max %.17g, documented %.17g", lp->alpha_max, d.max_sd);
    if (tp->N != d.N || tp->k != d.k) return fmt("(N,k)=(%d,%d), documented (%d,%d)", tp->N, tp->k, d.N, d.k);
    if (tp->alpha_min != d.bk_sd) return fmt("ring stdev %.17g, documented %.17g", tp->alpha_min, d.bk_sd);
    if (tp->alpha_max != d.max_sd) return fmt("ring alpha_max %.17g, documented %.17g", tp->alpha_max, d.max_sd);
    if (gp->l != d.l || gp->Bgbit != d.Bgbit) return fmt("(l,Bgbit)=(%d,%d), documented (%d,%d)", gp->l, gp->Bgbit, d.l, d.Bgbit);
    if (p->ks_t != d.t || p->ks_basebit != d.basebit) return fmt("(t,basebit)=(%d,%d), documented (%d,%d)", p->ks_t, p->ks_basebit, d.t, d.basebit);
    // derived fields, recomputed independently
    int64_t Bg = (int64_t)1 << d.Bgbit;
    if (gp->Bg != Bg || gp->halfBg != Bg / 2 || gp->maskMod != (uint32_t)(Bg - 1) || gp->kpl != (d.k + 1) * d.l) return fmt("derived gadget fields Bg=%d halfBg=%d maskMod=%u kpl=%d inconsistent", gp->Bg, gp->halfBg, gp->maskMod, gp->kpl);
    uint32_t off = 0; for (int i = 0; i < d.l; i++) { uint32_t h = 1u << (32 - (i + 1) * d.Bgbit); if ((uint32_t)gp->h[i] != h) return fmt("h[%d]=0x%08x, expected 0x%08x", i, (uint32_t)gp->h[i], h); off += h * (uint32_t)(Bg / 2); }
    // the decomposition offset is sum h_i*Bg/2 plus a rounding term below the resolution 2^(32-l*Bgbit) of the last digit (0 = truncation, half of it = round to nearest)
    { uint32_t extra = gp->offset - off; uint64_t res = (uint64_t)1 << (32 - d.l * d.Bgbit); if (extra >= res) return fmt("offset=0x%08x, expected 0x%08x plus a rounding term below 0x%llx", gp->offset, off, (unsigned long long)res); }
    if (tp->extracted_lweparams.n != d.k * d.N) return fmt("extracted dimension %d, expected %d", tp->extracted_lweparams.n, d.k * d.N);
    if (tp->extracted_lweparams.alpha_min != tp->alpha_min || tp->extracted_lweparams.alpha_max != tp->alpha_max) return "extracted parameters do not carry the ring noise levels";
    // structural constraints
    if (tp->N != 1024) return "N is not the size the FFT processors implement (1024)";
    if (d.l * d.Bgbit > 32) return "l*Bgbit > 32"; if (d.t * d.basebit > 31) return "t*basebit > 31";
    // noise formulas (average-case CGGI form: balanced digits Bg^2/12, 3/4 of the key-switch rows non-zero for base 4, mod-switch rounding)
    double varBR = (double)d.n * d.N * d.l * (d.k + 1) * (double)(Bg * Bg) / 12.0 * d.bk_sd * d.bk_sd + (double)d.n * (1 + d.k * d.N / 2.0) * std::pow(2.0, -2.0 * d.l * d.Bgbit) / 12.0;
    double base = (double)(1 << d.basebit);
    double varKS = (double)d.k * d.N * d.t * (base - 1) / base * d.ks_sd * d.ks_sd + d.k * d.N / 2.0 * std::pow(2.0, -2.0 * d.t * d.basebit) / 12.0;
    double sig = std::sqrt(varBR + varKS);
    if (!(sig <= d.bound)) return fmt("formula gate-output stdev %.6f exceeds the bound %.4f of this set", sig, d.bound);
    double varMS = (d.n + 1) / (48.0 * d.N * (double)d.N); // rounding of b and of every a_i to multiples of 1/2N (worst case: all key bits set)
    double worstIn = 1.35 * d.bound;                        // both inputs are MUX outputs at their bound
    double margin = (1.0 / 8) / std::sqrt(2 * worstIn * worstIn + varMS);   // NAND-type: margin 1/8, variance 2 s^2 ; XOR-type: 1/4 and 8 s^2 (same ratio)
    double marginFresh = (1.0 / 8) / std::sqrt(2 * d.ks_sd * d.ks_sd + varMS);
    stat_min(fmt("margin_sigmas_n%d", d.n), margin); stat_min(fmt("margin_fresh_sigmas_n%d", d.n), marginFresh); stat_max(fmt("formula_sigma_n%d", d.n), sig);
    if (!(margin >= 12.0)) return fmt("decoding margin %.2f sigma < 12 (worst gate, worst admissible inputs)", margin);
    if (!(d.ks_sd <= d.max_sd && d.bk_sd <= d.max_sd)) return "noise levels above the decryptable maximum";
    return "";
}

int main(int argc, char **argv) {
    init(argc, argv);
    std::vector<long> lambdas; for (long l = -5; l <= 300; l++) lambdas.push_back(l); lambdas.push_back(INT32_MIN); lambdas.push_back(INT32_MAX);
    // values that alias a valid request when narrowed to 8, 16 or 24 bits, or negated
    for (int w : {8, 16, 24, 30}) for (long off : {0L, 1L, 40L, 64L, 80L, 81L, 110L, 128L, 129L}) { lambdas.push_back((1L << w) + off); lambdas.push_back(-(1L << w) + off); lambdas.push_back((long)INT32_MIN + off + (w == 8 ? 0 : (1L << w))); }
    std::sort(lambdas.begin(), lambdas.end()); lambdas.erase(std::unique(lambdas.begin(), lambdas.end()), lambdas.end());
    for (long lam : lambdas) {
        std::string key = fmt("lambda=%ld", lam);
        if (!take(key)) continue;
        current(key);
        bool must_abort = lam <= 0 || lam > 128;
        Fate f = forked([&] {
            TFheGateBootstrappingParameterSet *p = new_default_gate_bootstrapping_parameters((int32_t)lam);
            if (must_abort) { violation(key, "returned a parameter set instead of aborting"); return; }
            if (!p) { violation(key, "returned NULL"); return; }
            std::string e = check_set(p, lam <= 80 ? DOC80 : DOC128);
            if (!e.empty()) violation(key, e);
            // monotone: never weaker than requested
            int provided = p->in_out_params->n >= 630 ? 128 : 80; if (provided < lam) violation(key, fmt("returned the %d-bit set for lambda=%ld", provided, lam));
            outcome(mix(p->in_out_params->n, p->tgsw_params->l));
            delete_gate_bootstrapping_parameters(p);
        }, 20);
        if (must_abort) { if (!(f.kind == Fate::SIGNALED && f.code == SIGABRT)) { if (f.kind != Fate::RETURNED || true) violation(key, "lambda outside [1,128] must abort the process, got: " + fate_str(f)); } else outcome(0xAB0); }
        else if (f.died()) violation(key, "process died: " + fate_str(f) + " " + f.text.substr(0, 200));
        eval(1); nontrivial(1);
    }
    // histories: the answer for lambda2 must not depend on an earlier request lambda1 in the same process (all ordered pairs/triples of a boundary alphabet)
    {
        const long AL[] = {1, 80, 81, 128};
        for (long l1 : AL) for (long l2 : AL) for (long l3 : AL) {
            std::string key = fmt("history/%ld,%ld,%ld", l1, l2, l3);
            if (!take(key)) continue;
            current(key);
            Fate f = forked([&] {
                long seq[3] = {l1, l2, l3};
                for (int q = 0; q < 3; q++) { TFheGateBootstrappingParameterSet *p = new_default_gate_bootstrapping_parameters((int32_t)seq[q]);
                    std::string e = check_set(p, seq[q] <= 80 ? DOC80 : DOC128); if (!e.empty()) { violation(key, fmt("request %d (lambda=%ld) after earlier requests: ", q + 1, seq[q]) + e); break; }
                    if (q != 1) delete_gate_bootstrapping_parameters(p); /* one set stays alive while the next is requested */ }
                outcome(mix(l1 * 1000 + l2, l3));
            }, 20);
            if (f.died()) violation(key, "process died: " + fate_str(f) + " " + f.text.substr(0, 200));
            eval(1); nontrivial(1);
        }
    }
    // lifecycles: every sequence of <= depth operations over {request 80 / 128 on this thread, request 80 / 128 on a worker thread that exits,
    // delete the oldest live set, delete the newest live set}; after EVERY operation every live set is re-checked field by field
    {
        static const char *OPN[] = {"new80", "new128", "thread80", "thread128", "del-oldest", "del-newest"};
        int depth = (int)opti("lifedepth", quick() ? 4 : 5); long total = 1; for (int d = 0; d < depth; d++) total *= 6;
        for (int d = 2; d <= depth; d++) { long cnt = 1; for (int q = 0; q < d; q++) cnt *= 6;
            for (long e = 0; e < cnt; e++) {
                int seq[8]; long x = e; int live = 0; bool valid = true, has_del = false; for (int q = 0; q < d; q++) { seq[q] = (int)(x % 6); x /= 6; if (seq[q] < 4) live++; else { has_del = true; if (live == 0) valid = false; else live--; } }
                if (!valid || (!has_del && seq[d - 1] < 2 && d > 2)) continue;   // sequences without deletion or thread are covered by the history group above
                std::string key = "lifecycle/"; for (int q = 0; q < d; q++) key += std::string(OPN[seq[q]]) + (q + 1 < d ? "," : "");
                if (!take(key)) continue; if (deadline()) break; current(key);
                Fate f = forked([&] {
                    std::vector<std::pair<TFheGateBootstrappingParameterSet *, int>> sets;
                    for (int q = 0; q < d; q++) { int op = seq[q];
                        if (op < 2) sets.push_back({new_default_gate_bootstrapping_parameters(op ? 128 : 80), op ? 128 : 80});
                        else if (op < 4) { TFheGateBootstrappingParameterSet *p = nullptr; int lam = op == 3 ? 128 : 80; pthread_t th; struct A { TFheGateBootstrappingParameterSet **p; int lam; } a{&p, lam};
                            pthread_create(&th, nullptr, [](void *v) -> void * { A *a = (A *)v; *a->p = new_default_gate_bootstrapping_parameters(a->lam); return nullptr; }, &a); pthread_join(th, nullptr); sets.push_back({p, lam}); }
                        else { size_t idx = op == 4 ? 0 : sets.size() - 1; delete_gate_bootstrapping_parameters(sets[idx].first); sets.erase(sets.begin() + idx); }
                        for (size_t i = 0; i < sets.size(); i++) { std::string er = check_set(sets[i].first, sets[i].second <= 80 ? DOC80 : DOC128);
                            if (!er.empty()) { violation(key, fmt("after operation %d (%s) the live %d-bit set number %zu no longer matches the documented set: ", q + 1, OPN[op], sets[i].second, i + 1) + er); return; } } }
                    outcome(mix(0x11FE, (uint64_t)sets.size()));
                }, 20);
                if (f.died()) violation(key, "process died: " + fate_str(f) + " " + f.text.substr(0, 200));
                eval(1); nontrivial(1);
            } }
        (void)total;
    }
    sample("lifecycle/new80,thread128,del-oldest,new80: the 128-bit set was requested by a worker thread that has exited; after every operation every live set is compared field by field with the documented set");
    sample("history/80,128,81: three requests in one process, each answer checked field by field");
    sample("lambda=80 -> 80-bit set (n=500, 2.44e-5, N=1024, k=1, 7.18e-9, l=2, Bgbit=10, t=8, basebit=2), every field + derived fields + margins");
    sample("lambda=81 -> 128-bit set (n=630, 2^-15, N=1024, 2^-25, l=3, Bgbit=7, t=8, basebit=2)"); sample("lambda=0, -5, 129, 300, INT32_MIN, INT32_MAX -> SIGABRT");
    return finish();
}
