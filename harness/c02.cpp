// C02 — circuits of any depth stay correct; gate output noise bounded and input-independent.
// Explicit-state search over the REAL transition function: state = register file of w ciphertexts, abstract key = per register (plaintext bit, kind)
// with kind in {T trivial, F fresh, B bootstrapped binary-gate output, M MUX output, P adversarial at the admissible limit}.  Transitions = every
// gate of the public API with every choice of destination and source registers (dst = src and src1 = src2 included) + FRESH + INJECT(+-).
// BFS keeps one concrete representative per abstract state, executes every transition on the real library with real default keys, hashes the
// successor's abstract key and stops at the fix-point: every netlist of any length over w registers is a path of the explored graph.
#include "vf.hpp"
#include "ref.hpp"
#include "gates.hpp"
#include "exactkey.hpp"
#include <lwe-functions.h>
#include <thread>
#include <mutex>
#include <atomic>
#include <cmath>
using namespace vf;
using namespace gates;

enum Kind { T = 0, F = 1, B = 2, M = 3, P = 4 };
static const char KCH[] = "TFBMP";
struct Reg { int bit; int kind; };
struct Keys { int lam; TFheGateBootstrappingParameterSet *ps; SK *sk; int n; double bound; };
struct Concrete { std::vector<LweSample *> r; };

struct Op { int type; /*0 gate,1 fresh,2 inject*/ int g; int dst, s[3]; int val; std::string name; };
static std::vector<Op> make_ops(int w) {
    std::vector<Op> ops; const auto &G = table();
    for (int gi = 0; gi < (int)G.size(); gi++) { const Gate &g = G[gi]; int combos = 1; for (int q = 0; q < g.arity; q++) combos *= w;
        for (int dst = 0; dst < w; dst++) for (int c = 0; c < combos; c++) for (int val = 0; val < (g.arity == 0 ? 2 : 1); val++) { Op o; o.type = 0; o.g = gi; o.dst = dst; int t = c; for (int q = 0; q < 3; q++) { o.s[q] = q < g.arity ? t % w : 0; if (q < g.arity) t /= w; } o.val = val;
            o.name = fmt("r%d=%s(", dst, g.name); for (int q = 0; q < g.arity; q++) o.name += fmt("%sr%d", q ? "," : "", o.s[q]); if (g.arity == 0) o.name += std::to_string(val); o.name += ")"; ops.push_back(o); } }
    for (int dst = 0; dst < w; dst++) for (int v = 0; v < 2; v++) { Op o; o.type = 1; o.g = -1; o.dst = dst; o.val = v; o.s[0] = o.s[1] = o.s[2] = 0; o.name = fmt("r%d=FRESH(%d)", dst, v); ops.push_back(o); }
    for (int dst = 0; dst < w; dst++) for (int v = 0; v < 2; v++) { Op o; o.type = 2; o.g = -1; o.dst = dst; o.val = v; o.s[0] = o.s[1] = o.s[2] = 0; o.name = fmt("r%d=INJECT%c(r%d)", dst, v ? '+' : '-', dst); ops.push_back(o); }
    return ops;
}
static std::string key_of(const std::vector<Reg> &a) { std::string s; for (auto &r : a) { s += (char)('0' + r.bit); s += KCH[r.kind]; } return s; }

struct Stats { std::mutex mu; std::map<std::string, std::array<double, 4>> pools; // n, s1, s2, maxabs
    void add(const std::string &k, double e) { std::lock_guard<std::mutex> l(mu); auto &p = pools[k]; p[0]++; p[1] += e; p[2] += e * e; if (std::fabs(e) > p[3]) p[3] = std::fabs(e); } };

static void fresh(Keys &K, LweSample *c, int bit, uint64_t &x) { double a = K.ps->in_out_params->alpha_min; uint32_t b = (uint32_t)(bit ? MU8 : -MU8) + (uint32_t)(int32_t)std::llround(ek::gauss(x) * a * 4294967296.0);
    for (int i = 0; i < K.n; i++) { c->a[i] = (Torus32)splitmix(x); b += (uint32_t)c->a[i] * (uint32_t)K.sk->lwe_key->key[i]; } c->b = (Torus32)b; c->current_variance = a * a; }

static std::mutex g_vmu;
static void viol(const std::string &k, const std::string &m) { std::lock_guard<std::mutex> l(g_vmu); violation(k, m); }

// execute op on a copy of the concrete state; returns the successor registers (abstract) and fills `out` (concrete dst)
static bool step(Keys &K, const std::string &skey, const std::vector<Reg> &abs, const Concrete &cs, const Op &op, std::vector<Reg> &nabs, LweSample *out, Stats &st, int depth, const std::string &path) {
    const LweParams *lp = K.ps->in_out_params; nabs = abs; uint64_t x = fnv(skey.data(), skey.size()) ^ fnv(op.name.data(), op.name.size());
    std::string ckey = fmt("lambda=%d/state=%s/op=%s", K.lam, skey.c_str(), op.name.c_str());
    if (op.type == 1) { fresh(K, out, op.val, x); nabs[op.dst] = {op.val, F}; }
    else if (op.type == 2 && abs[op.dst].kind == T) { lweCopy(out, cs.r[op.dst], lp); /* no-op on a trivial register */ }
    else if (op.type == 2) { lweCopy(out, cs.r[op.dst], lp); Torus32 ph = lwePhase(out, K.sk->lwe_key); int bit = abs[op.dst].bit; Torus32 target = (bit ? MU8 : -MU8) + (op.val ? 1 : -1) * ((1 << 27) - (1 << 12)); out->b += target - ph; if (!op.val) out->current_variance = 0.; /* INJECT-: also drops the advisory variance field, as a raw copy of (a, b) would */ nabs[op.dst] = {bit, P}; }
    else { const Gate &g = table()[op.g];
        // the gate is called on the real registers: dst may alias a source (in-place update) — reproduce that on copies of all registers
        std::vector<LweSample *> tmp(cs.r.size()); for (size_t q = 0; q < cs.r.size(); q++) { tmp[q] = new_LweSample(lp); lweCopy(tmp[q], cs.r[q], lp); }
        apply(g, tmp[op.dst], tmp[op.s[0]], tmp[op.s[1]], tmp[op.s[2]], op.val, &K.sk->cloud);
        lweCopy(out, tmp[op.dst], lp); for (auto p : tmp) delete_LweSample(p);
        int bits[3] = {abs[op.s[0]].bit, abs[op.s[1]].bit, abs[op.s[2]].bit}; if (g.arity == 0) bits[0] = op.val;
        int want = g.truth(bits[0], bits[1], bits[2]);
        int kind = g.arity == 0 ? T : g.arity == 1 ? abs[op.s[0]].kind : g.arity == 3 ? M : B;
        { bool zm = true; for (int i = 0; i < K.n; i++) if (out->a[i]) { zm = false; break; } if (zm) kind = T; }   // a gate fed with zero-mask inputs returns a zero-mask (noiseless) sample: semantically trivial
        nabs[op.dst] = {want, kind};
        int got = bootsSymDecrypt(out, K.sk);
        if (got != want) { viol(ckey, fmt("%s in state %s decrypts to %d, plaintext netlist says %d (depth %d, reached by: %s)", op.name.c_str(), skey.c_str(), got, want, depth, path.c_str())); return false; }
        if (g.boots) { double e = (double)ref::sdiff(lwePhase(out, K.sk->lwe_key), want ? MU8 : -MU8) / 4294967296.0;
            if (std::fabs(e) >= 3.0 / 64) { viol(ckey, fmt("%s in state %s: output phase error %.5f >= 3/64 (depth %d)", op.name.c_str(), skey.c_str(), e, depth)); return false; }
            bool allT = true, noisy = false, adv = false; for (int q = 0; q < g.arity; q++) { int k = abs[op.s[q]].kind; if (k != T) allT = false; if (k == B || k == M) noisy = true; if (k == P) adv = true; }
            // degenerate: the internal linear combination has an all-zero mask (trivial inputs, or self-cancelling shared inputs such as ANDNY(r,r)): no CMux runs,
            // the output carries key-switching noise only.  Bounded (checked) but not comparable with the generic strata.
            { auto zero_mask = [&](int ka, const LweSample *x, int kb, const LweSample *y) { for (int i = 0; i < K.n; i++) if ((uint32_t)ka * (uint32_t)x->a[i] + (uint32_t)kb * (uint32_t)y->a[i]) return false; return true; };
              if (g.arity == 2 && zero_mask(g.ka, cs.r[op.s[0]], g.kb, cs.r[op.s[1]])) allT = true;
              if (g.arity == 3 && (zero_mask(1, cs.r[op.s[0]], 1, cs.r[op.s[1]]) || zero_mask(-1, cs.r[op.s[0]], 1, cs.r[op.s[2]]))) allT = true; }
            std::string gc = g.arity == 3 ? "mux" : "bin";
            if (!allT) { st.add(gc + "/all", e); st.add(gc + (adv ? "/inputs=adversarial" : noisy ? "/inputs=gate-outputs" : "/inputs=fresh"), e); st.add(gc + fmt("/depth=%d", depth > 4 ? 4 : depth), e); st.add(gc + (op.dst == op.s[0] || op.dst == op.s[1] ? "/in-place" : "/distinct"), e); st.add(gc + (g.arity >= 2 && op.s[0] == op.s[1] ? "/shared-input" : "/independent-inputs"), e); }
            else st.add(gc + "/degenerate-mask", e); }
    }
    return true;
}

// iid = the pooled outputs come from independent inputs (strata experiment, netlists); the BFS reuses one representative ciphertext per abstract state in many
// transitions (up to ~16 gates see the same source masks), so its pools are correlated: bound checks use an effective sample size n/16 and strata are not compared
static void judge_pools(Keys &K, Stats &st, const std::string &base, bool iid) {
    for (auto cls : {std::string("bin"), std::string("mux")}) { double bound = K.bound * (cls == "mux" ? 1.35 : 1.0);
        std::vector<std::pair<std::string, std::array<double, 4>>> strata;
        for (auto &kv : st.pools) if (!kv.first.compare(0, 4, cls + "/")) { auto p = kv.second; if (p[0] < 1000 && kv.first != cls + "/all") continue; if (kv.first == cls + "/degenerate-mask") { double n = p[0], mean = p[1] / n, sd = std::sqrt(std::max(0.0, p[2] / n - mean * mean)); if (n >= 1000 && sd > bound * (1 + 8 / std::sqrt(2 * n))) violation(base + "/pool=" + kv.first, fmt("lambda=%d: stdev %.5f of degenerate-mask outputs exceeds the bound %.5f", K.lam, sd, bound)); continue; }
            double n = p[0], mean = p[1] / n, sd = std::sqrt(std::max(0.0, p[2] / n - mean * mean)); std::string k = base + "/pool=" + kv.first;
            std::string tag = base.substr(0, base.find('/')); stat_max(fmt("%s/stdev_over_bound/lambda%d/%s", tag.c_str(), K.lam, kv.first.c_str()), sd / bound); stat_max(fmt("%s/absmean_over_quarter_bound/lambda%d/%s", tag.c_str(), K.lam, kv.first.c_str()), std::fabs(mean) / (0.25 * bound)); stat_max(fmt("%s/outputs/lambda%d/%s", tag.c_str(), K.lam, kv.first.c_str()), n);
            // the acceptance region is 8 estimator standard deviations wide (a pool sitting exactly at the bound must not raise an alarm): n >= 1000 outputs per judged pool
            double neff = iid ? n : n / 16;
            if (neff >= 1000 || (iid && n >= 1000)) { double slack = 8 / std::sqrt(2 * neff); if (sd > bound * (1 + slack)) violation(k, fmt("lambda=%d: stdev of the output phase error %.5f over %g outputs exceeds the bound %.5f (by more than 8 estimator sigma)", K.lam, sd, n, bound));
                if (std::fabs(mean) > 0.25 * bound + 8 * sd / std::sqrt(neff)) violation(k, fmt("lambda=%d: mean output phase error %.6f exceeds a quarter of the bound %.5f (%g outputs, 8 estimator sigma allowed)", K.lam, mean, bound, n)); }
            if (iid && n >= 1000) strata.push_back({kv.first, p}); nontrivial(1); }
        // input independence: strata of the same family agree within 8 estimator sigma
        for (size_t a = 0; a < strata.size(); a++) for (size_t b = a + 1; b < strata.size(); b++) { auto fam = [](const std::string &s) { size_t p = s.find('/'), e = s.find('=', p); return s.substr(p, e == std::string::npos ? std::string::npos : e - p); };
            if (fam(strata[a].first) != fam(strata[b].first) || strata[a].first.find('=') == std::string::npos) continue;
            double na = strata[a].second[0], nb = strata[b].second[0], ma = strata[a].second[1] / na, mb = strata[b].second[1] / nb, sa = std::sqrt(strata[a].second[2] / na - ma * ma), sb = std::sqrt(strata[b].second[2] / nb - mb * mb), s = std::max(sa, sb);
            if (std::fabs(sa - sb) > 8 * s * std::sqrt(1 / (2 * na) + 1 / (2 * nb))) violation(base + "/independence/" + strata[a].first + "-vs-" + strata[b].first, fmt("lambda=%d: output noise depends on the inputs: stdev %.5f (%s, %g outputs) vs %.5f (%s, %g outputs)", K.lam, sa, strata[a].first.c_str(), na, sb, strata[b].first.c_str(), nb));
            if (std::fabs(ma - mb) > 8 * s * std::sqrt(1 / na + 1 / nb)) violation(base + "/independence-mean/" + strata[a].first + "-vs-" + strata[b].first, fmt("lambda=%d: mean output error depends on the inputs: %.6f (%s) vs %.6f (%s)", K.lam, ma, strata[a].first.c_str(), mb, strata[b].first.c_str())); } }
}

static void bfs(Keys &K, int w, int nthreads) {
    std::string base = fmt("bfs/lambda=%d/w=%d", K.lam, w); current(base);
    const LweParams *lp = K.ps->in_out_params; std::vector<Op> ops = make_ops(w); Stats st;
    std::map<std::string, int> index; std::vector<std::vector<Reg>> abs; std::vector<Concrete> conc; std::vector<int> depth; std::vector<std::string> path;
    { std::vector<Reg> a0(w, Reg{0, T}); Concrete c; for (int q = 0; q < w; q++) { LweSample *s = new_LweSample(lp); bootsCONSTANT(s, 0, &K.sk->cloud); c.r.push_back(s); } index[key_of(a0)] = 0; abs.push_back(a0); conc.push_back(c); depth.push_back(0); path.push_back("init"); }
    size_t frontier_begin = 0; uint64_t transitions = 0; int level = 0; bool failed = false;
    while (frontier_begin < abs.size() && !failed) {
        size_t fe = abs.size(); level++;
        struct Cand { std::vector<Reg> nabs; LweSample *out; bool ok; }; size_t ntask = (fe - frontier_begin) * ops.size(); std::vector<Cand> cands(ntask);
        std::atomic<size_t> next(0); std::vector<std::thread> pool;
        for (int t = 0; t < nthreads; t++) pool.emplace_back([&] { for (;;) { size_t i = next.fetch_add(1); if (i >= ntask) break; size_t si = frontier_begin + i / ops.size(); const Op &op = ops[i % ops.size()];
            cands[i].out = new_LweSample(lp); cands[i].ok = step(K, key_of(abs[si]), abs[si], conc[si], op, cands[i].nabs, cands[i].out, st, depth[si] + 1, path[si]); } });
        for (auto &t : pool) t.join();
        transitions += ntask;
        for (size_t i = 0; i < ntask; i++) { if (!cands[i].ok) { failed = true; continue; } size_t si = frontier_begin + i / ops.size(); const Op &op = ops[i % ops.size()]; std::string k = key_of(cands[i].nabs);
            if (!index.count(k)) { index[k] = (int)abs.size(); abs.push_back(cands[i].nabs); Concrete c; for (int q = 0; q < w; q++) { LweSample *s = new_LweSample(lp); lweCopy(s, q == op.dst ? cands[i].out : conc[si].r[q], lp); c.r.push_back(s); } conc.push_back(c); depth.push_back(depth[si] + 1); path.push_back(path[si] + ";" + op.name); }
            delete_LweSample(cands[i].out); }
        frontier_begin = fe; if (deadline()) { S().exhaustive = false; break; }
    }
    int maxd = 0; for (int d : depth) if (d > maxd) maxd = d;
    stat_sum("states", (double)abs.size()); stat_sum("transitions", (double)transitions); stat_sum("traces_validated", (double)transitions); stat_max(fmt("fixpoint_depth/lambda%d/w%d", K.lam, w), maxd); stat_max(fmt("abstract_states/lambda%d/w%d", K.lam, w), (double)abs.size());
    eval(transitions); for (auto &kv : index) outcome(fnv(kv.first.data(), kv.first.size()));
    if (!failed) judge_pools(K, st, base, false);
    sample(fmt("lambda=%d w=%d: %zu abstract states, %llu transitions executed on the real library, fix-point at depth %d; deepest representative: %s", K.lam, w, abs.size(), (unsigned long long)transitions, maxd, path.back().c_str()));
}

// ---- structured corpus: plaintext interpreter vs homomorphic evaluation
struct NetGate { int g; int dst, a, b, c; };
static void run_netlist(Keys &K, const std::string &name, int nregs, const std::vector<int> &inputs, const std::vector<NetGate> &net, Stats &st) {
    std::string key = fmt("netlist/lambda=%d/%s", K.lam, name.c_str()); current(key);
    const LweParams *lp = K.ps->in_out_params; std::vector<LweSample *> r(nregs); std::vector<int> pt(nregs, 0); uint64_t x = fnv(key.data(), key.size());
    for (int q = 0; q < nregs; q++) { r[q] = new_LweSample(lp); int bit = q < (int)inputs.size() ? inputs[q] : 0; pt[q] = bit; if (q < (int)inputs.size()) fresh(K, r[q], bit, x); else bootsCONSTANT(r[q], 0, &K.sk->cloud); }
    int gi = 0; for (auto &ng : net) { const Gate &g = table()[ng.g]; apply(g, r[ng.dst], r[ng.a], r[ng.b], r[ng.c], 0, &K.sk->cloud); int want = g.truth(pt[ng.a], pt[ng.b], pt[ng.c]); pt[ng.dst] = want; gi++;
        int got = bootsSymDecrypt(r[ng.dst], K.sk); if (got != want) { violation(key, fmt("gate #%d (%s r%d<-r%d,r%d,r%d) decrypts to %d, plaintext evaluation gives %d", gi, g.name, ng.dst, ng.a, ng.b, ng.c, got, want)); break; }
        if (g.boots) { double e = (double)ref::sdiff(lwePhase(r[ng.dst], K.sk->lwe_key), want ? MU8 : -MU8) / 4294967296.0; if (std::fabs(e) >= 3.0 / 64) { violation(key, fmt("gate #%d output error %.5f >= 3/64", gi, e)); break; } st.add(std::string(g.arity == 3 ? "mux" : "bin") + "/all", e); st.add(std::string(g.arity == 3 ? "mux" : "bin") + "/netlists", e); } eval(1); }
    nontrivial(1); outcome(mix(fnv(pt.data(), pt.size() * 4), net.size())); for (auto p : r) delete_LweSample(p);
}
static int GI(const char *n) { const auto &G = table(); for (int i = 0; i < (int)G.size(); i++) if (!strcmp(G[i].name, n)) return i; return -1; }
static void corpus(Keys &K) {
    Stats st; const int XOR = GI("XOR"), AND = GI("AND"), OR = GI("OR"), NAND = GI("NAND"), MUX = GI("MUX"), XNOR = GI("XNOR"), ANDNY = GI("ANDNY"), NOT = GI("NOT");
    for (int pat = 0; pat < (quick() ? 2 : 6); pat++) { // 8-bit ripple-carry adder: a = regs 0..7, b = 8..15, sum -> 16..23, carry 24, temps 25,26
        std::vector<int> in(16); for (int i = 0; i < 16; i++) in[i] = (0xA5C3F00F >> ((i * 3 + pat * 5) % 32)) & 1; std::vector<NetGate> net;
        for (int i = 0; i < 8; i++) { net.push_back({XOR, 25, i, 8 + i, 0}); net.push_back({XOR, 16 + i, 25, 24, 0}); net.push_back({AND, 26, 25, 24, 0}); net.push_back({AND, 25, i, 8 + i, 0}); net.push_back({OR, 24, 25, 26, 0}); }
        run_netlist(K, fmt("adder8/pattern=%d", pat), 27, in, net, st); }
    { std::vector<int> in(16); for (int i = 0; i < 16; i++) in[i] = (0x3C96 >> i) & 1; std::vector<NetGate> net; // comparator a<b, MSB first: lt = MUX(XNOR(a,b), lt, b)
      for (int i = 0; i < 8; i++) { net.push_back({XNOR, 17, i, 8 + i, 0}); net.push_back({MUX, 16, 17, 16, 8 + i}); } run_netlist(K, "comparator8", 18, in, net, st); }
    { std::vector<int> in = {1, 0, 0, 1, 1, 1, 0, 1, /*sel*/ 1, 0, 1}; std::vector<NetGate> net; // 8:1 multiplexer tree
      for (int i = 0; i < 4; i++) net.push_back({MUX, 11 + i, 8, 2 * i + 1, 2 * i}); for (int i = 0; i < 2; i++) net.push_back({MUX, 15 + i, 9, 12 + 2 * i, 11 + 2 * i}); net.push_back({MUX, 17, 10, 16, 15}); run_netlist(K, "mux-tree8", 18, in, net, st); }
    { std::vector<int> in = {1}; std::vector<NetGate> net; int len = quick() ? 200 : 1000; for (int i = 0; i < len; i++) net.push_back({i % 7 == 3 ? XNOR : NAND, 0, 0, 0, 0}); run_netlist(K, fmt("in-place-chain-%d", len), 1, in, net, st); }
    { std::vector<int> in = {1, 0, 1, 1}; std::vector<NetGate> net; // fan-out heavy parity tree with re-use
      for (int i = 0; i < (quick() ? 30 : 120); i++) { net.push_back({XOR, 4 + (i % 3), i % 4, (i + 1) % 4, 0}); net.push_back({ANDNY, i % 4, 4 + (i % 3), (i + 2) % 4, 0}); net.push_back({XOR, (i + 1) % 4, 4 + (i % 3), 4 + ((i + 1) % 3), 0}); net.push_back({NOT, (i + 3) % 4, (i + 3) % 4, 0, 0}); } run_netlist(K, "fanout-parity", 7, in, net, st); }
    { std::vector<int> in = {1, 0, 1, 0, 1, 1}; std::vector<NetGate> net; int len = quick() ? 1100 : 3000; // multiplexer-heavy register shuffle (conditional moves, in place)
      for (int i = 0; i < len; i++) net.push_back({MUX, (i * 5 + 1) % 6, i % 6, (i + 2) % 6, (i * 3 + 4) % 6}); run_netlist(K, fmt("mux-shuffle-%d", len), 6, in, net, st); }
    judge_pools(K, st, fmt("netlist/lambda=%d", K.lam), true);
}

// ---- input-independence on INDEPENDENT samples: for every input class, n gate evaluations on inputs that share nothing (fresh masks, independently
// bootstrapped inputs, independent injections, independent deep chains); strata of one family must agree within 8 estimator sigma and respect the bounds
static void strata(Keys &K, int per_class, int nthreads) {
    std::string base = fmt("strata/lambda=%d", K.lam); current(base); Stats st; const LweParams *lp = K.ps->in_out_params; const auto &G = table();
    static const char *CLS[] = {"fresh", "gate-outputs", "adversarial", "deep-chain", "mixed"};
    int ncls = quick() ? 3 : 5;   // quick: fresh, gate-outputs, adversarial on binary gates; thorough adds depth-6 chains, mixed inputs and MUX
    std::atomic<int> next(0); int total = ncls * per_class; std::vector<std::thread> pool; std::atomic<bool> failed(false);
    for (int t = 0; t < nthreads; t++) pool.emplace_back([&] { LweSample *in[3], *tmp[3], *out = new_LweSample(lp); for (int q = 0; q < 3; q++) { in[q] = new_LweSample(lp); tmp[q] = new_LweSample(lp); }
        for (;;) { int i = next.fetch_add(1); if (i >= total || failed) break; int cls = i % ncls, rep = i / ncls; uint64_t x = (uint64_t)i * 0x9E3779B97F4A7C15ULL + K.lam; int bits[3];
            for (int q = 0; q < 3; q++) { bits[q] = (int)(splitmix(x) & 1); int c = cls == 4 ? (int)(splitmix(x) % 4) : cls;
                if (c == 0) fresh(K, in[q], bits[q], x);
                else if (c == 1) { int b0 = (int)(splitmix(x) & 1); fresh(K, tmp[0], b0, x); fresh(K, tmp[1], bits[q] ^ b0, x); bootsXOR(in[q], tmp[0], tmp[1], &K.sk->cloud); }
                else if (c == 2) { fresh(K, in[q], bits[q], x); Torus32 ph = lwePhase(in[q], K.sk->lwe_key); in[q]->b += ((bits[q] ? MU8 : -MU8) + ((splitmix(x) & 1) ? 1 : -1) * ((1 << 27) - (1 << 12))) - ph; }
                else { fresh(K, in[q], bits[q], x); for (int d = 0; d < 6; d++) { fresh(K, tmp[0], 0, x); bootsXOR(in[q], in[q], tmp[0], &K.sk->cloud); } } }   // depth-6 in-place chain, plaintext preserved
            bool mux = thorough() && rep % 4 == 3; const Gate &g = mux ? G[10] : G[rep % 10];
            apply(g, out, in[0], in[1], in[2], 0, &K.sk->cloud); int want = g.truth(bits[0], bits[1], bits[2]);
            if (bootsSymDecrypt(out, K.sk) != want) { viol(base + fmt("/sample=%d", i), fmt("%s on %s inputs decrypts wrongly", g.name, CLS[cls])); failed = true; break; }
            double e = (double)ref::sdiff(lwePhase(out, K.sk->lwe_key), want ? MU8 : -MU8) / 4294967296.0; if (std::fabs(e) >= 3.0 / 64) { viol(base + fmt("/sample=%d", i), fmt("%s on %s inputs: output error %.5f >= 3/64", g.name, CLS[cls], e)); failed = true; break; }
            std::string gc = mux ? "mux" : "bin"; st.add(gc + "/all", e); st.add(gc + "/inputs=" + CLS[cls], e); } });
    for (auto &t : pool) t.join();
    eval(total); stat_sum("transitions", total); stat_sum("traces_validated", total);
    if (!failed) judge_pools(K, st, base, true);
    sample(fmt("strata lambda=%d: %d independent gate evaluations per input class {fresh, outputs of independent bootstrapped gates, adversarial +-(1/32-2^-20), depth-6 in-place chains, mixed}", K.lam, per_class));
}

int main(int argc, char **argv) {
    init(argc, argv);
    int w = (int)opti("w", 2), lam = (int)opti("lambda", 128), nth = (int)opti("threads", 8); std::string part = opt("part", "bfs");
    uint32_t sd[2] = {(uint32_t)lam, (uint32_t)S().seed}; tfhe_random_generator_setSeed(sd, 2);
    // a process that serves several parameter sets: the other default set's keys are generated first (key generation must not remember an earlier noise level)
    if (opt("prekeys", "1") == "1") { TFheGateBootstrappingParameterSet *o = new_default_gate_bootstrapping_parameters(lam > 80 ? 80 : 128); SK *osk = new_random_gate_bootstrapping_secret_keyset(o); delete_gate_bootstrapping_secret_keyset(osk); delete_gate_bootstrapping_parameters(o); }
    Keys K; K.lam = lam; K.ps = new_default_gate_bootstrapping_parameters(lam); K.sk = new_random_gate_bootstrapping_secret_keyset(K.ps); K.n = K.ps->in_out_params->n; K.bound = lam > 80 ? 0.0037 : 0.0047;
    if (part == "bfs") bfs(K, w, nth); else if (part == "strata") strata(K, (int)opti("per_class", quick() ? 1400 : 6000), nth); else corpus(K);
    return finish();
}
