// Shared workloads for C06: each "scenario" prepares shared inputs, gives one body per thread, and knows how to compute a thread's
// output sequentially (the reference).  Used by the controlled-scheduler explorer (c06.cpp) and by the free-running TSan pass (c06_free.cpp).
#pragma once
#include "vf.hpp"
#include "sched.hpp"
#include "ref.hpp"
#include "exactkey.hpp"
#include "gates.hpp"
#include <polynomials_arithmetic.h>
#include <lagrangehalfc_arithmetic.h>
#include <tgsw_functions.h>
#include <tlwe_functions.h>
#include <lwe-functions.h>
#include <thread>

namespace c06 {
static const int N = 1024;

struct Scenario {
    std::string name; int nthreads;
    std::function<void()> prepare;                       // build shared inputs (called once, on the main thread)
    std::function<std::string(int)> work;                // the work of thread i; returns its output bytes
    std::function<void()> before_run;                    // optional: called before the threads start
    std::function<void()> after_run;                     // optional: called after the scheduled run, before the sequential references are computed
};

struct Shared {
    std::vector<IntPolynomial *> ia; std::vector<TorusPolynomial *> tb; ek::Set *S = nullptr; std::vector<TLweSample *> acc; std::vector<LweSample *> xin;
    gates::CK *ck = nullptr; TFheGateBootstrappingParameterSet *ps = nullptr;
};
inline Shared &SH() { static Shared s; return s; }
inline volatile int *FLAGS() { static volatile int f[4]; return f; }

inline void prep_polys(int T, int n) { Shared &s = SH(); uint64_t x = 17; for (int t = 0; t < T; t++) { IntPolynomial *a = new_IntPolynomial(n); TorusPolynomial *b = new_TorusPolynomial(n); for (int i = 0; i < n; i++) { a->coefs[i] = (int32_t)(vf::splitmix(x) % 1024) - 512; b->coefsT[i] = (Torus32)vf::splitmix(x); } s.ia.push_back(a); s.tb.push_back(b); } }
inline void prep_key(int n, int T) { Shared &s = SH(); s.S = ek::make(n, 1, 2, 10, 8, 2, 81); s.ps = new TFheGateBootstrappingParameterSet(8, 2, s.S->lp, s.S->gp); s.ck = new gates::CK(s.ps, s.S->bk, s.S->bkFFT); uint64_t x = 23;
    for (int t = 0; t < 2 * T; t++) { LweSample *c = new_LweSample(s.S->lp); uint32_t b = (uint32_t)((t & 1) ? gates::MU8 : -gates::MU8) + (uint32_t)(vf::splitmix(x) % 1000); for (int i = 0; i < n; i++) { c->a[i] = (Torus32)vf::splitmix(x); b += (uint32_t)c->a[i] * (uint32_t)s.S->s->key[i]; } c->b = (Torus32)b; s.xin.push_back(c); }
    for (int t = 0; t < T; t++) { TLweSample *a = new_TLweSample(s.S->tp); for (int i = 0; i <= 1; i++) for (int j = 0; j < N; j++) a->a[i].coefsT[j] = (Torus32)vf::splitmix(x); s.acc.push_back(a); } }
inline std::string poly_bytes(const TorusPolynomial *p) { return std::string((const char *)p->coefsT, p->N * 4); }
inline std::string lwe_bytes(const LweSample *c, int n) { std::string s((const char *)c->a, n * 4); s.append((const char *)&c->b, 4); return s; }

inline std::vector<Scenario> scenarios(int T, int tiny_n, const std::vector<int> &churn = {}) {
    std::vector<Scenario> v;
    // H1 also offers coarse scheduling points inside the libm-driven table construction (first FFT use of a thread / of the process)
    v.push_back({"H1-fft-products", T, [=] { prep_polys(T, N); }, [](int t) { TorusPolynomial *r = new_TorusPolynomial(N); torusPolynomialMultFFT(r, SH().ia[t], SH().tb[t]); std::string o = poly_bytes(r); delete_TorusPolynomial(r); return o; }, [] { sched::C().libm_points = true; }, [] { sched::C().libm_points = false; }});
    v.push_back({"H2-extern-products-shared-key", T, [=] { prep_key(tiny_n, T); }, [](int t) { Shared &s = SH(); TLweSample *a = new_TLweSample(s.S->tp); tLweCopy(a, s.acc[t], s.S->tp); tGswFFTExternMulToTLwe(a, &s.S->bkFFT->bkFFT[0], s.S->gp); std::string o = poly_bytes(&a->a[0]) + poly_bytes(&a->a[1]); delete_TLweSample(a); return o; }});
    v.push_back({"H3-gates-shared-cloud-key", T, [=] { prep_key(tiny_n, T); }, [](int t) { Shared &s = SH(); LweSample *r = new_LweSample(s.S->lp); if (t & 1) bootsXOR(r, s.xin[2 * t], s.xin[2 * t + 1], s.ck); else bootsNAND(r, s.xin[2 * t], s.xin[2 * t + 1], s.ck); std::string o = lwe_bytes(r, s.S->n); delete_LweSample(r); return o; }});
    v.push_back({"H4-gate-vs-keygen", 2, [=] { prep_key(tiny_n, 2); }, [](int t) { Shared &s = SH();
        if (t == 0) { LweSample *r = new_LweSample(s.S->lp); bootsAND(r, s.xin[0], s.xin[1], s.ck); std::string o = lwe_bytes(r, s.S->n); delete_LweSample(r); return o; }
        // key generation with its own data (it is the only user of the library generator)
        uint32_t sd[2] = {5, 6}; tfhe_random_generator_setSeed(sd, 2); TLweParams *tp = new_TLweParams(N, 1, 1e-9, 0.25); TGswParams *gp = new_TGswParams(1, 8, tp); TGswKey *k = new_TGswKey(gp); tGswKeyGen(k); TGswSample *g = new_TGswSample(gp); tGswSymEncryptInt(g, 1, 1e-9, k);
        std::string o = poly_bytes(g->all_sample[0].b) + poly_bytes(g->all_sample[1].b); delete_TGswSample(g); delete_TGswKey(k); delete_TGswParams(gp); delete_TLweParams(tp); return o; }});
    v.push_back({"K-karatsuba-products", T, [=] { prep_polys(T, 16); }, [](int t) { TorusPolynomial *r = new_TorusPolynomial(16); torusPolynomialMultKaratsuba(r, SH().ia[t], SH().tb[t]); for (int i = 0; i < 16; i++) r->coefsT[i] ^= 0; torusPolynomialAddMulRKaratsuba(r, SH().ia[t], SH().tb[t]); std::string o = poly_bytes(r); delete_TorusPolynomial(r); return o; }});
    // shared INPUTS (a ciphertext that fans out to several gates evaluated by different threads; one operand polynomial used by all threads):
    // an evaluation must not write its inputs, not even transiently
    v.push_back({"H6-shared-input-ciphertexts", T, [=] { prep_key(tiny_n, T); }, [](int t) { Shared &s = SH(); LweSample *r = new_LweSample(s.S->lp); std::string o;
        if (t == 0) { tfhe_bootstrap_FFT(r, s.S->bkFFT, gates::MU8, s.xin[0]); o = lwe_bytes(r, s.S->n); bootsMUX(r, s.xin[0], s.xin[1], s.xin[0], s.ck); o += lwe_bytes(r, s.S->n); }
        else if (t & 1) { bootsCOPY(r, s.xin[0], s.ck); o = lwe_bytes(r, s.S->n); bootsXOR(r, s.xin[0], s.xin[1], s.ck); o += lwe_bytes(r, s.S->n); bootsNOT(r, s.xin[0], s.ck); o += lwe_bytes(r, s.S->n); }
        else { bootsNAND(r, s.xin[1], s.xin[0], s.ck); o = lwe_bytes(r, s.S->n); bootsOR(r, s.xin[0], s.xin[0], s.ck); o += lwe_bytes(r, s.S->n); }
        delete_LweSample(r); return o; }});
    v.push_back({"K2-karatsuba-shared-operands", T, [=] { prep_polys(2, 32); }, [](int t) { TorusPolynomial *r = new_TorusPolynomial(32); std::string o;
        torusPolynomialMultKaratsuba(r, SH().ia[0], SH().tb[t & 1]); o = poly_bytes(r); torusPolynomialAddMulRKaratsuba(r, SH().ia[t & 1], SH().tb[0]); o += poly_bytes(r); torusPolynomialSubMulRKaratsuba(r, SH().ia[0], SH().tb[0]); o += poly_bytes(r); delete_TorusPolynomial(r); return o; }});
    // thread churn: between the first FFT use of T0 and the first FFT use of T1, F short-lived threads are created, use the FFT once and exit
    // ("threads created and destroyed repeatedly", thread counts up to 64): per-thread state must not be recycled between live threads
    for (int F : churn) v.push_back({vf::fmt("H5-thread-churn-%d", F), 2, [=] { prep_polys(4, N); FLAGS()[0] = FLAGS()[1] = 0; }, [F](int t) {
        TorusPolynomial *r = new_TorusPolynomial(N); std::string o;
        if (t == 0) { torusPolynomialMultFFT(r, SH().ia[0], SH().tb[0]); o = poly_bytes(r); sched::set_flag(&FLAGS()[0]);      // T0 has its per-thread FFT state
                      torusPolynomialMultFFT(r, SH().ia[1], SH().tb[1]); o += poly_bytes(r); sched::wait_flag(&FLAGS()[1]); }    // ... and stays alive until the churn is over
        else { sched::wait_flag(&FLAGS()[0]);
               for (int f = 0; f < F; f++) { std::thread th([] { TorusPolynomial *q = new_TorusPolynomial(N); torusPolynomialMultFFT(q, SH().ia[3], SH().tb[3]); delete_TorusPolynomial(q); }); th.join(); }
               sched::set_flag(&FLAGS()[1]); torusPolynomialMultFFT(r, SH().ia[2], SH().tb[2]); o = poly_bytes(r); }
        delete_TorusPolynomial(r); return o; }, [] { FLAGS()[0] = FLAGS()[1] = 0; }, [] { FLAGS()[0] = FLAGS()[1] = 1; /* events already signalled while the references are computed sequentially */ }});
    return v;
}
} // namespace c06
