// C04 — bootstrapping maps the rounded phase p = round_2N(b) - sum round_2N(a_i) s_i through the test polynomial exactly.
// Sharp sub-case: bootstrapping keys built by the harness with exact integer arithmetic (engine/exactkey.hpp), so the only errors are the
// FFT rounding of each CMux and the gadget truncation, both bounded analytically (budget << mu).  Real noisy default keys: sign exactly as
// predicted, |error| < 3/64.  Dimension groups run in forked children (n > N is watched by guard pages / ASan).
#include "vf.hpp"
#include "ref.hpp"
#include "exactkey.hpp"
#include "gates.hpp"
#include <lwe-functions.h>
using namespace vf;

static const int N = 1024, N2 = 2048;
static const Torus32 MUS[] = {(Torus32)0x20000000, (Torus32)0xE0000000, (Torus32)0x40000000, (Torus32)0x12345678, 0, INT32_MIN};
enum Variant { WOKS_FFT, KS_FFT, WOKS_COEF, KS_COEF, NVAR };
static const char *VNAME[] = {"woKS_FFT", "FFT", "woKS", "coef"};

static Torus32 phase_out(ek::Set *S, const LweSample *r, bool ks) { return ks ? ref::lwe_phase(r->a, r->b, S->s->key, S->n) : ref::lwe_phase(r->a, r->b, S->ext->key, S->k * N); }
static void run_variant(ek::Set *S, int v, LweSample *out_ks, LweSample *out_ext, Torus32 mu, const LweSample *x) {
    switch (v) { case WOKS_FFT: tfhe_bootstrap_woKS_FFT(out_ext, S->bkFFT, mu, x); break; case KS_FFT: tfhe_bootstrap_FFT(out_ks, S->bkFFT, mu, x); break;
                 case WOKS_COEF: tfhe_bootstrap_woKS(out_ext, S->bk, mu, x); break; default: tfhe_bootstrap(out_ks, S->bk, mu, x); }
}
static int64_t ks_budget(ek::Set *S) { return (int64_t)S->k * N * ((int64_t)1 << (31 - S->t * S->bb)) + 2; }

// one input x with harness-predicted p (ties counted); checks all requested variants
static bool check_input(const std::string &key, ek::Set *S, const LweSample *x, Torus32 mu, unsigned variants, LweSample *oks, LweSample *oext, const char *what) {
    int ties = 0; int p = gates::rounded_phase(x->a, x->b, S->s->key, S->n, N, &ties);
    int nz = 0; { bool t; for (int i = 0; i < S->n; i++) if (ref::round_mod((uint32_t)x->a[i], N2, &t) != 0) nz++; }
    for (int v = 0; v < NVAR; v++) { if (!(variants & (1u << v))) continue;
        bool ks = v == KS_FFT || v == KS_COEF;
        run_variant(S, v, oks, oext, mu, x);
        Torus32 ph = phase_out(S, ks ? oks : oext, ks);
        int64_t budget = ek::blind_rotate_budget(S, nz) + (ks ? ks_budget(S) : 0);
        Torus32 want = p < N ? mu : (Torus32)(0u - (uint32_t)mu);
        int64_t d = ref::sdiff(ph, want); if (d < 0) d = -d;
        int64_t d2 = d;
        if (ties) { // an exact rounding tie in the input: the neighbouring p is acceptable too (only matters at the two sign boundaries)
            for (int alt : {p - 1, p + 1}) { int q = ((alt % N2) + N2) % N2; Torus32 w2 = q < N ? mu : (Torus32)(0u - (uint32_t)mu); int64_t e = ref::sdiff(ph, w2); if (e < 0) e = -e; if (e < d2) d2 = e; } }
        stat_max(fmt("error_units/%s", VNAME[v]), (double)d2);
        if (d2 > budget) { violation(key, fmt("%s %s: p=%d (n=%d k=%d l=%d Bgbit=%d, %d non-zero exponents) -> expected phase 0x%08x, got 0x%08x: off by %lld units, budget %lld", VNAME[v], what, p, S->n, S->k, S->l, S->Bgbit, nz, (uint32_t)want, (uint32_t)ph, (long long)d, (long long)budget)); return false; }
        eval(1);
    }
    return true;
}

static std::vector<int> targets(bool all) { if (opt("light") == "1") all = false; std::vector<int> t; if (all) for (int p = 0; p < N2; p++) t.push_back(p); else t = {0, 1, 2, N - 2, N - 1, N, N + 1, N2 - 2, N2 - 1, 511, 1536}; return t; }

// ---- group: trivial samples (a = 0): all 2N cells, centre and both rounding edges; the result must be exactly +-mu (no CMux runs)
static void g_trivial(int k, int l, int Bgbit) {
    ek::Set *S = ek::make(3, k, l, Bgbit, 8, 2, 41);
    LweSample *x = new_LweSample(S->lp), *oks = new_LweSample(S->lp), *oext = new_LweSample(&S->tp->extracted_lweparams);
    for (int mi = 0; mi < 6; mi++) for (int cell = 0; cell < N2; cell++) {
        std::string key = fmt("trivial/k=%d/l=%d/Bgbit=%d/mu=%d/cell=%d", k, l, Bgbit, mi, cell);
        if (!want(key)) continue; if (deadline()) break; current(key);
        if (quick() && mi >= 2 && !(cell < 2 || cell > N2 - 3 || (cell >= N - 2 && cell <= N + 1))) continue;
        for (int i = 0; i < S->n; i++) x->a[i] = 0;
        uint32_t c = (uint32_t)cell << 21; bool ok = true;
        for (uint32_t b : {c, c + (1u << 20) - 1, c + (1u << 20), c - (1u << 20)}) { x->b = (Torus32)b; ok = ok && check_input(key, S, x, MUS[mi], (quick() && cell % 64 > 2 && cell % 64 < 62) ? 0x3 : 0xF, oks, oext, "trivial sample"); }
        nontrivial(1); outcome(mix(cell < N, mi));
    }
    current(fmt("trivial/k=%d/l=%d/Bgbit=%d/(end-of-group)", k, l, Bgbit));
    delete_LweSample(x); delete_LweSample(oks); delete_LweSample(oext); ek::destroy(S);
}

// ---- group: general test polynomial through tfhe_blindRotateAndExtract[_FFT], all 2N values of barb, exponent vectors hitting every p
static void g_testpoly(int n, int k, int l, int Bgbit) {
    ek::Set *S = ek::make(n, k, l, Bgbit, 8, 2, 43);
    TorusPolynomial *v = new_TorusPolynomial(N); LweSample *o = new_LweSample(&S->tp->extracted_lweparams); std::vector<int32_t> bara(n);
    for (int vk = 0; vk < 6; vk++) { uint64_t x = 7 + vk;
        for (int j = 0; j < N; j++) v->coefsT[j] = vk == 0 ? (Torus32)0x20000000 : vk == 1 ? (j == 0 ? 0x40000000 : 0) : vk == 2 ? (j == 1 ? 0x40000000 : 0) : vk == 3 ? (j == N - 1 ? 0x40000000 : 0) : vk == 4 ? (Torus32)((uint32_t)j << 20) : (Torus32)splitmix(x);
        for (int fft = 1; fft >= 0; fft--) for (int p : targets(thorough() && fft)) for (int mk = 0; mk < 2; mk++) {
            std::string key = fmt("testpoly/n=%d/k=%d/l=%d/Bgbit=%d/v=%d/%s/p=%d/mask=%d", n, k, l, Bgbit, vk, fft ? "FFT" : "coef", p, mk);
            if (!want(key)) continue; if (deadline()) break; current(key);
            if (!fft && (vk == 2 || vk == 3 || mk)) continue;
            int q = 0, nz = 0; for (int i = 0; i < n; i++) { bara[i] = mk == 0 ? (int)(splitmix(x) % N2) : (i % 3 == 0 ? 0 : (i % 3 == 1 ? N2 - 1 : N)); q += bara[i] * S->s->key[i]; if (bara[i]) nz++; }
            int barb = ((p + q) % N2 + N2) % N2;
            if (fft) tfhe_blindRotateAndExtract_FFT(o, v, S->bkFFT->bkFFT, barb, bara.data(), n, S->gp); else tfhe_blindRotateAndExtract(o, v, S->bk->bk, barb, bara.data(), n, S->gp);
            Torus32 ph = ref::lwe_phase(o->a, o->b, S->ext->key, k * N), wantc = ref::rotated_coef0(v->coefsT, p, N);
            int64_t d = ref::sdiff(ph, wantc); if (d < 0) d = -d; int64_t budget = ek::blind_rotate_budget(S, nz) * (fft ? 1 : S->gp->kpl);
            if (d > budget) violation(key, fmt("blindRotateAndExtract%s: coefficient p=%d of the anticyclic extension of v is 0x%08x, result phase 0x%08x (off by %lld units, budget %lld)", fft ? "_FFT" : "", p, (uint32_t)wantc, (uint32_t)ph, (long long)d, (long long)budget));
            eval(1); nontrivial(1); outcome(mix(p, vk));
        }
    }
    current(fmt("testpoly/n=%d/k=%d/l=%d/Bgbit=%d/(end-of-group)", n, k, l, Bgbit));
    delete_TorusPolynomial(v); delete_LweSample(o); ek::destroy(S);
}

// ---- group: n = 1, every rounded mask value x the boundary set (quick) / every rounded b (thorough)
static void g_n1(int keybit) {
    ek::Set *S = ek::make(1, 1, 4, 8, 8, 2, 45, 0, 0, keybit); S->s->key[0] = keybit; // (keykind 1 = ones; for keybit 0 rebuild the rows encrypting 0)
    if (!keybit) { ek::destroy(S); S = ek::make(1, 1, 4, 8, 8, 2, 46, 0, 0, 0); if (S->s->key[0]) { S->s->key[0] = 0; uint64_t x = 99; ek::tgsw_exact(&S->bk->bk[0], S->gp, S->ring->key, x, nullptr, 0, 0, nullptr); delete_LweBootstrappingKeyFFT(S->bkFFT); S->bkFFT = new_LweBootstrappingKeyFFT(S->bk); } }
    LweSample *x = new_LweSample(S->lp), *oks = new_LweSample(S->lp), *oext = new_LweSample(&S->tp->extracted_lweparams);
    for (int bara = 0; bara < N2; bara++) {
        std::string key = fmt("n1/s=%d/bara=%d", keybit, bara);
        if (!want(key)) continue; if (deadline()) break; current(key);
        std::vector<int> ps = targets(thorough() && keybit == 1 && bara % 4 == (int)(vf::S().seed & 3));
        for (int p : ps) { int barb = (p + bara * keybit) % N2; x->a[0] = (Torus32)((uint32_t)bara << 21); x->b = (Torus32)(((uint32_t)barb << 21) + 12345u);
            if (!check_input(key, S, x, MUS[0], 0x1, oks, oext, "n=1 sweep")) break; }
        nontrivial(1); outcome(mix(bara < N, keybit));
    }
    current(fmt("n1/s=%d/(end-of-group)", keybit));
    delete_LweSample(x); delete_LweSample(oks); delete_LweSample(oext); ek::destroy(S);
}

// ---- group: seeded masks of dimension n (incl. n > N), b solved so that p hits every target
static void g_dim(int n, int k, int l, int Bgbit) {
    int t = n > 64 ? 8 : 8, bb = 2;
    ek::Set *S = ek::make(n, k, l, Bgbit, t, bb, 47);
    LweSample *x = new_LweSample(S->lp), *oks = new_LweSample(S->lp), *oext = new_LweSample(&S->tp->extracted_lweparams);
    uint64_t rs = n * 1000 + k * 100 + l;
    for (int mk = 0; mk < (quick() ? 2 : 4); mk++) for (int mi = 0; mi < (quick() ? 2 : 6); mi++) for (int p : targets(thorough() && n <= 3 && mk == 0 && mi == 0)) {
        int midx = mi == 1 && quick() ? 3 : mi;
        std::string key = fmt("dim/n=%d/k=%d/l=%d/Bgbit=%d/mask=%d/mu=%d/p=%d", n, k, l, Bgbit, mk, midx, p);
        if (!want(key)) continue; if (deadline()) break; current(key);
        uint64_t xs = rs + mk * 7919; for (int i = 0; i < n; i++) x->a[i] = (Torus32)splitmix(xs);
        if (mk == 1) for (int i = 0; i < n; i++) x->a[i] = (i & 1) ? (Torus32)0xFFE80000 : (Torus32)0x00180000; // round to 2N-1 and 1: wrap-around exponents
        int ties = 0; x->b = 0; int q = gates::rounded_phase(x->a, 0, S->s->key, n, N, &ties); // p for b = 0 is -sum
        int barb = ((p - q) % N2 + N2) % N2; x->b = (Torus32)(((uint32_t)barb << 21) + ((p & 1) ? (1u << 20) - 1 : 0u - (1u << 20) + 1));
        unsigned variants = 0x3; if (n <= 9 && (p == 0 || p == N || p == N2 - 1) && mk == 0) variants = 0xF;
        check_input(key, S, x, MUS[midx], variants, oks, oext, "seeded mask");
        nontrivial(1); outcome(mix(p < N, n));
    }
    current(fmt("dim/n=%d/k=%d/l=%d/Bgbit=%d/(end-of-group)", n, k, l, Bgbit));
    delete_LweSample(x); delete_LweSample(oks); delete_LweSample(oext); ek::destroy(S);
}

// ---- group: the real (noisy) default keys: sign exactly as predicted, |error| < 3/64
static void g_default(int lam) {
    uint32_t sd[2] = {(uint32_t)lam, (uint32_t)vf::S().seed}; tfhe_random_generator_setSeed(sd, 2);
    TFheGateBootstrappingParameterSet *ps = new_default_gate_bootstrapping_parameters(lam); TFheGateBootstrappingSecretKeySet *sk = new_random_gate_bootstrapping_secret_keyset(ps);
    int n = ps->in_out_params->n; LweSample *x = new_gate_bootstrapping_ciphertext(ps), *o = new_gate_bootstrapping_ciphertext(ps); uint64_t xs = lam;
    std::vector<int> ps_; if (thorough()) for (int p = 0; p < N2; p++) ps_.push_back(p); else for (int c : {0, N}) for (int d = -16; d < 16; d++) ps_.push_back(((c + d) % N2 + N2) % N2);
    for (int p : ps_) {
        std::string key = fmt("default/lambda=%d/p=%d", lam, p);
        if (!want(key)) continue; if (deadline()) break; current(key);
        for (int i = 0; i < n; i++) x->a[i] = (Torus32)splitmix(xs);
        int ties = 0; int q = gates::rounded_phase(x->a, 0, sk->lwe_key->key, n, N, &ties); int barb = ((p - q) % N2 + N2) % N2; x->b = (Torus32)(((uint32_t)barb << 21) + (uint32_t)(splitmix(xs) % (1u << 20)));
        if (ties) continue;
        tfhe_bootstrap_FFT(o, sk->cloud.bkFFT, MUS[0], x);
        Torus32 ph = lwePhase(o, sk->lwe_key); Torus32 want = p < N ? MUS[0] : (Torus32)(0u - (uint32_t)MUS[0]); int64_t d = ref::sdiff(ph, want); if (d < 0) d = -d;
        stat_max(fmt("default_error_lambda%d", lam), (double)d / 4294967296.0);
        bool nearb = (p < 2 || p > N2 - 3 || (p >= N - 2 && p <= N + 1)); stat_sum(fmt("default_abs_error_%s_lambda%d", nearb ? "boundary" : "generic", lam), (double)d / 4294967296.0); stat_sum(fmt("default_count_%s_lambda%d", nearb ? "boundary" : "generic", lam), 1);
        if (d >= (3ll << 26)) violation(key, fmt("default %d-bit key: p=%d -> expected %s1/8, output phase %.5f (error %.5f >= 3/64)", lam, p, p < N ? "+" : "-", t32tod(ph), (double)d / 4294967296.0));
        eval(1); nontrivial(1); outcome(mix(p < N, lam));
    }
}

// ---- group: key lifetimes.  The FFT key is a self-contained image: after it has been built from bk, re-filling bk with another key set, or
// deleting bk, must not change what tfhe_bootstrap[_woKS]_FFT computes with it.  A second key set (B) is alive all along.
static void copy_bk(LweBootstrappingKey *dst, const LweBootstrappingKey *src) { // same parameters: overwrite every row, as a second tfhe_createLweBootstrappingKey on the object would
    int n = src->in_out_params->n, kpl = src->bk_params->kpl, k = src->bk_params->tlwe_params->k;
    for (int i = 0; i < n; i++) for (int p = 0; p < kpl; p++) { for (int q = 0; q <= k; q++) memcpy(dst->bk[i].all_sample[p].a[q].coefsT, src->bk[i].all_sample[p].a[q].coefsT, N * 4); dst->bk[i].all_sample[p].current_variance = src->bk[i].all_sample[p].current_variance; }
    int tot = src->ks->n * src->ks->t * src->ks->base; for (int r = 0; r < tot; r++) { memcpy(dst->ks->ks0_raw[r].a, src->ks->ks0_raw[r].a, n * 4); dst->ks->ks0_raw[r].b = src->ks->ks0_raw[r].b; dst->ks->ks0_raw[r].current_variance = src->ks->ks0_raw[r].current_variance; }
}
static void g_lifetime(int k) {
    ek::Set *A = ek::make(3, k, 2, 10, 8, 2, 101), *B = ek::make(3, k, 2, 10, 8, 2, 202);
    LweSample *x = new_LweSample(A->lp), *oks = new_LweSample(A->lp), *oext = new_LweSample(&A->tp->extracted_lweparams);
    static const char *STEP[] = {"fresh", "after-bk-was-refilled-with-another-key-set", "after-bk-was-deleted"};
    for (int step = 0; step < 3; step++) {
        if (step == 1) copy_bk(A->bk, B->bk);
        if (step == 2) { delete_LweBootstrappingKey(A->bk); A->bk = new_LweBootstrappingKey(8, 2, B->lp, B->gp); copy_bk(A->bk, B->bk); } // the new object typically re-uses the freed storage
        for (int p : targets(false)) {
            std::string key = fmt("lifetime/k=%d/%s/p=%d", k, STEP[step], p);
            if (!want(key)) continue; if (deadline()) break; current(key);
            uint64_t xs = 900 + p; for (int i = 0; i < 3; i++) x->a[i] = (Torus32)splitmix(xs);
            int ties = 0; x->b = 0; int q = gates::rounded_phase(x->a, 0, A->s->key, 3, N, &ties); int barb = ((p - q) % N2 + N2) % N2; x->b = (Torus32)(((uint32_t)barb << 21) + ((p & 1) ? (1u << 20) - 1 : 0u - (1u << 20) + 1));
            check_input(key, A, x, MUS[0], step == 0 ? 0xF : 0x3, oks, oext, STEP[step]);          // A's FFT key must keep working under A's keys
            if (step) check_input(key, B, x, MUS[1], 0xF, oks, oext, "second key set alive alongside");
            nontrivial(1); outcome(mix(p < N, step * 8 + k));
        }
    }
    current(fmt("lifetime/k=%d/(end-of-group)", k));
    delete_LweSample(x); delete_LweSample(oks); delete_LweSample(oext); ek::destroy(A); ek::destroy(B);
}

static void group(const std::string &prefix, const std::function<void()> &fn, double tmo = 600) {
    if (!take_group(prefix)) return; if (deadline()) return;
    current(prefix + "(start)");
    double remain = S().deadline_s - elapsed(); if (remain + 300 > tmo) tmo = remain + 300;   // children watch the deadline themselves; the kill timer is for real hangs only
    Fate f = forked(fn, tmo);
    if (f.died()) violation(curkey(), "process died in this case: " + fate_str(f) + " " + f.text.substr(0, 400));
}

int main(int argc, char **argv) {
    init(argc, argv);
    struct Cf { int k, l, Bgbit; } cfs[] = {{1, 2, 10}, {1, 3, 7}, {1, 4, 8}, {1, 2, 16}, {2, 2, 10}, {2, 4, 8}};
    std::string part = opt("part", "all");
    if (part == "all" || part == "big") { group("dim/n=1100/k=1/l=2/Bgbit=10/", [] { g_dim(1100, 1, 2, 10); }, 900);   // n > N
        for (int k : {1, 2}) group(fmt("lifetime/k=%d/", k), [=] { g_lifetime(k); }); }   // and the key-lifetime histories under guard pages / ASan
    if (part == "all" || part == "main") {
        for (auto c : cfs) for (int n : {2, 3, 8, 9}) { if (quick() && (n == 3 || n == 8) && !(c.k == 1 && c.l == 2 && c.Bgbit == 10)) continue; group(fmt("dim/n=%d/k=%d/l=%d/Bgbit=%d/", n, c.k, c.l, c.Bgbit), [=] { g_dim(n, c.k, c.l, c.Bgbit); }); }
        for (auto c : cfs) { if (quick() && c.k == 2 && c.l == 4) continue; group(fmt("trivial/k=%d/l=%d/Bgbit=%d/", c.k, c.l, c.Bgbit), [=] { g_trivial(c.k, c.l, c.Bgbit); }); }
        for (auto c : cfs) for (int n : {1, 3}) { if (quick() && (c.Bgbit == 16 || (c.k == 2 && n == 3))) continue; group(fmt("testpoly/n=%d/k=%d/l=%d/Bgbit=%d/", n, c.k, c.l, c.Bgbit), [=] { g_testpoly(n, c.k, c.l, c.Bgbit); }); }
        for (int s : {1, 0}) group(fmt("n1/s=%d/", s), [=] { g_n1(s); });
        for (int k : {1, 2}) group(fmt("lifetime/k=%d/", k), [=] { g_lifetime(k); });
        for (int lam : {128, 80}) group(fmt("default/lambda=%d/", lam), [=] { g_default(lam); }, 1200);
    }
    sample("dim/n=9/k=2/l=4/Bgbit=8/mask=0/mu=0/p=1024: seeded mask, b solved so that p = N exactly: all four variants must return -mu within the analytic budget");
    sample("trivial/k=1/l=3/Bgbit=7/mu=3/cell=1023: a=0, b at the cell centre and both rounding edges; result phase exactly +-0x12345678");
    sample("testpoly/n=3/k=1/l=2/Bgbit=10/v=4/FFT/p=2047/mask=1: ramp test polynomial, exponents {0,2N-1,N}");
    return finish();
}
