// C05 — export followed by import reproduces every object exactly, on both transports, alone or concatenated.
#include "vf.hpp"
#include "ioobjs.hpp"
#include <cmath>
using namespace vf;
using namespace io;

static const double REALS[] = {1e-12, 9.313225746154785e-10 /*2^-30*/, 7.18e-9, 2.98023223876953125e-08 /*2^-25*/, 2.44e-5, 3.0517578125e-05 /*2^-15*/, 1e-3, 0.012467, 0.1, 0.3, 0.5};
static const int NR = 11;
static Cfg with_reals(Cfg c, int i) { c.la_min = REALS[i % NR]; c.la_max = REALS[(i + 3) % NR]; c.ta_min = REALS[(i + 5) % NR]; c.ta_max = REALS[(i + 7) % NR]; return c; }
static bool eight_decimals(double v) { char b[64]; snprintf(b, sizeof b, "%.8f", v); return strtod(b, 0) == v; }

// one object, one transport: export, import, compare, position, re-export
static void roundtrip(const std::string &key, World &w, Type &T, bool file) {
    Out o(file); T.exp(w, o); std::string bytes = o.bytes();
    In in(file, bytes);
    void *h = T.imp(w, in);
    if (!h) { violation(key, "import returned NULL"); return; }
    std::string e = T.cmp(w, h);
    if (!e.empty()) { violation(key, std::string(T.name) + (file ? " via FILE" : " via C++ stream") + ": re-imported object differs: " + e); return; }
    if (in.failed()) { violation(key, "stream in failed state after importing a complete export"); return; }
    long p = in.pos(); if (p != (long)bytes.size()) { violation(key, fmt("stream position after import %ld, export length %zu", p, bytes.size())); return; }
    Out o2(file); T.reexp(h, w, o2); if (o2.bytes() != bytes) { violation(key, "re-export of the imported object yields different bytes"); return; }
    // both transports produce the same bytes
    Out o3(!file); T.exp(w, o3); if (o3.bytes() != bytes) violation(key, "FILE and C++ stream exports of the same object differ");
}

static void single_cases() {
    struct Dim { int n, N, k, l, Bgbit, t, basebit; } dims[] = {{1, 2, 1, 2, 4, 2, 1}, {7, 8, 2, 3, 7, 3, 3}, {8, 8, 1, 2, 10, 8, 2}, {9, 2, 2, 1, 1, 1, 1}};
    for (auto d : dims) for (int ri = 0; ri < NR; ri++) for (int content = 0; content < 6; content++) {
        std::string prefix = fmt("single/n=%d,N=%d,k=%d,l=%d,Bgbit=%d,t=%d,bb=%d/reals=%d/content=%s/", d.n, d.N, d.k, d.l, d.Bgbit, d.t, d.basebit, ri, content_name(content));
        if (!take_group(prefix)) continue; if (deadline()) return;
        Cfg c; c.n = d.n; c.N = d.N; c.k = d.k; c.l = d.l; c.Bgbit = d.Bgbit; c.t = d.t; c.basebit = d.basebit; c.content = content; c.seed = 1 + ri + S().seed; c = with_reals(c, ri);
        current(prefix + "(start)");
        Fate f = forked([&] {
            World w(c);
            for (auto &T : types()) { if (T.needs_keysets) continue; for (int file = 0; file < 2; file++) {
                std::string key = prefix + T.name + (file ? "/FILE" : "/stream"); if (!want(key)) continue; current(key);
                roundtrip(key, w, T, file); eval(1);
                bool nt = !T.text_only || !eight_decimals(c.la_min) || !eight_decimals(c.ta_min) || !eight_decimals(c.la_max) || !eight_decimals(c.ta_max); if (nt) nontrivial(1);
                outcome(mix(fnv(T.name, strlen(T.name)), content * 16 + ri)); } }
        }, 120);
        if (f.died()) violation(curkey(), "process died during export/import of a valid object: " + fate_str(f) + " " + f.text.substr(0, 300));
    }
    sample("single/n=7,N=8,k=2,l=3,Bgbit=7,t=3,bb=3/reals=2/content=END-marker-bytes/LweBootstrappingKey/FILE: alpha (7.18e-9, 3.05e-5, 0.012467, 0.5); arrays spell '\\n-----END LWEPARAMS-----\\n...'");
}

static void keyset_cases() {
    for (int ri = 0; ri < NR; ri++) for (int content : {5, 1, 3}) {
        if (quick() && content != 5 && ri % 4 != 0) continue;
        std::string prefix = fmt("keyset/reals=%d/content=%s/", ri, content_name(content));
        if (!take_group(prefix)) continue; if (deadline()) return;
        Cfg c; c.n = 2; c.N = 1024; c.k = 1; c.l = 1; c.Bgbit = 8; c.t = 2; c.basebit = 1; c.content = content; c.seed = 50 + ri; c.keysets = true; c = with_reals(c, ri);
        current(prefix + "(start)");
        Fate f = forked([&] { World w(c);
            for (auto &T : types()) { if (!T.needs_keysets) continue; for (int file = 0; file < 2; file++) { std::string key = prefix + T.name + (file ? "/FILE" : "/stream"); if (!want(key)) continue; current(key); roundtrip(key, w, T, file); eval(1); nontrivial(1); outcome(mix(fnv(T.name, 5), ri)); } } }, 300);
        if (f.died()) violation(curkey(), "process died during export/import of a valid key set: " + fate_str(f) + " " + f.text.substr(0, 300));
    }
}

// the two default parameter sets (and, in the thorough tier, complete default key sets: gates under the re-imported cloud key are bit-identical)
static void default_cases() {
    for (int lam : {80, 128}) for (int file = 0; file < 2; file++) {
        std::string key = fmt("default/lambda=%d/ParameterSet/%s", lam, file ? "FILE" : "stream");
        if (!take(key)) continue; if (deadline()) return; current(key);
        Fate f = forked([&] {
            TFheGateBootstrappingParameterSet *ps = new_default_gate_bootstrapping_parameters(lam);
            Out o(file); if (file) export_tfheGateBootstrappingParameterSet_toFile(o.F, ps); else export_tfheGateBootstrappingParameterSet_toStream(o.os, ps);
            std::string b = o.bytes(); In in(file, b);
            TFheGateBootstrappingParameterSet *q = file ? new_tfheGateBootstrappingParameterSet_fromFile(in.F) : new_tfheGateBootstrappingParameterSet_fromStream(in.is);
            std::string e = cmp_ps(ps, q); if (!e.empty()) violation(key, fmt("default %d-bit parameter set does not survive export/import: ", lam) + e);
            eval(1); nontrivial(1); outcome(mix(lam, file));
        }, 60);
        if (f.died()) violation(key, "process died: " + fate_str(f));
    }
    // a small FUNCTIONAL key set (real key generation, n = 8): every gate under the original and under the re-imported cloud key must give the same
    // ciphertext object - mask, body and the variance annotation, i.e. the same exported bytes - on both transports
    for (int file = 0; file < 2; file++) {
        std::string key = fmt("functional-small/KeySets/%s", file ? "FILE" : "stream");
        if (!take(key)) continue; if (deadline()) return; current(key);
        Fate f = forked([&] {
            uint32_t sd[2] = {8, 99}; tfhe_random_generator_setSeed(sd, 2);
            LweParams *lp = new_LweParams(8, 1e-6, 0.01); TLweParams *tp = new_TLweParams(1024, 1, 1e-9, 0.01); TGswParams *gp = new_TGswParams(2, 10, tp); TFheGateBootstrappingParameterSet *ps = new TFheGateBootstrappingParameterSet(3, 2, lp, gp);
            TFheGateBootstrappingSecretKeySet *sk = new_random_gate_bootstrapping_secret_keyset(ps);
            Out o(file); if (file) export_tfheGateBootstrappingCloudKeySet_toFile(o.F, &sk->cloud); else export_tfheGateBootstrappingCloudKeySet_toStream(o.os, &sk->cloud); std::string bc = o.bytes(); In ic(file, bc);
            TFheGateBootstrappingCloudKeySet *ck = file ? new_tfheGateBootstrappingCloudKeySet_fromFile(ic.F) : new_tfheGateBootstrappingCloudKeySet_fromStream(ic.is);
            LweSample *in3 = new_gate_bootstrapping_ciphertext_array(3, ps), *r1 = new_gate_bootstrapping_ciphertext(ps), *r2 = new_gate_bootstrapping_ciphertext(ps);
            typedef void (*G2)(LweSample *, const LweSample *, const LweSample *, const TFheGateBootstrappingCloudKeySet *);
            struct { const char *n; G2 g; } gs[] = {{"NAND", bootsNAND}, {"AND", bootsAND}, {"OR", bootsOR}, {"XOR", bootsXOR}, {"XNOR", bootsXNOR}, {"NOR", bootsNOR}, {"ANDNY", bootsANDNY}, {"ANDYN", bootsANDYN}, {"ORNY", bootsORNY}, {"ORYN", bootsORYN}};
            auto same = [&](const char *gname) { std::ostringstream a, b; export_gate_bootstrapping_ciphertext_toStream(a, r1, ps); export_gate_bootstrapping_ciphertext_toStream(b, r2, ps);
                if (a.str() != b.str()) { violation(key, fmt("%s under the re-imported cloud key exports to different bytes than under the original key (a,b %s; variance annotation %.17g vs %.17g)", gname, (memcmp(r1->a, r2->a, 32) || r1->b != r2->b) ? "differ" : "equal", r1->current_variance, r2->current_variance)); return false; } return true; };
            bool ok = true;
            for (int bits = 0; bits < 8 && ok; bits++) { for (int q = 0; q < 3; q++) bootsSymEncrypt(in3 + q, (bits >> q) & 1, sk);
                for (auto &g : gs) { g.g(r1, in3, in3 + 1, &sk->cloud); g.g(r2, in3, in3 + 1, ck); if (!(ok = same(g.n))) break; eval(1); }
                if (ok) { bootsMUX(r1, in3, in3 + 1, in3 + 2, &sk->cloud); bootsMUX(r2, in3, in3 + 1, in3 + 2, ck); ok = same("MUX"); }
                if (ok) { bootsNOT(r1, in3, &sk->cloud); bootsNOT(r2, in3, ck); ok = same("NOT"); } }
            nontrivial(1); outcome(mix(0xF5, file));
        }, 300);
        if (f.died()) violation(key, "process died: " + fate_str(f) + " " + f.text.substr(0, 300));
    }
    if (quick() && opt("fullkeys", "0") != "1") return;
    for (int lam : {80, 128}) for (int file = 0; file < 2; file++) {
        std::string key = fmt("default/lambda=%d/KeySets/%s", lam, file ? "FILE" : "stream");
        if (!take(key)) continue; if (deadline()) return; current(key);
        Fate f = forked([&] {
            uint32_t sd[2] = {(uint32_t)lam, 99}; tfhe_random_generator_setSeed(sd, 2);
            TFheGateBootstrappingParameterSet *ps = new_default_gate_bootstrapping_parameters(lam);
            TFheGateBootstrappingSecretKeySet *sk = new_random_gate_bootstrapping_secret_keyset(ps);
            std::string bc, bs;
            { Out o(file); if (file) export_tfheGateBootstrappingCloudKeySet_toFile(o.F, &sk->cloud); else export_tfheGateBootstrappingCloudKeySet_toStream(o.os, &sk->cloud); bc = o.bytes(); }
            { Out o(file); if (file) export_tfheGateBootstrappingSecretKeySet_toFile(o.F, sk); else export_tfheGateBootstrappingSecretKeySet_toStream(o.os, sk); bs = o.bytes(); }
            In ic(file, bc), is(file, bs);
            TFheGateBootstrappingCloudKeySet *ck = file ? new_tfheGateBootstrappingCloudKeySet_fromFile(ic.F) : new_tfheGateBootstrappingCloudKeySet_fromStream(ic.is);
            TFheGateBootstrappingSecretKeySet *sk2 = file ? new_tfheGateBootstrappingSecretKeySet_fromFile(is.F) : new_tfheGateBootstrappingSecretKeySet_fromStream(is.is);
            std::string e = cmp_ps(ps, ck->params); if (e.empty()) e = cmp_bk(sk->cloud.bk, ck->bk); if (e.empty()) e = cmp_bk(sk->cloud.bk, sk2->cloud.bk);
            if (!e.empty()) { violation(key, "default key set differs after export/import: " + e); return; }
            { Out o(file); if (file) export_tfheGateBootstrappingCloudKeySet_toFile(o.F, ck); else export_tfheGateBootstrappingCloudKeySet_toStream(o.os, ck); if (o.bytes() != bc) { violation(key, "re-export of the imported cloud key differs"); return; } }
            // every gate under the original and the re-imported cloud key: identical ciphertext bytes; re-imported secret key decrypts identically
            int n = ps->in_out_params->n; LweSample *in3 = new_gate_bootstrapping_ciphertext_array(3, ps), *r1 = new_gate_bootstrapping_ciphertext(ps), *r2 = new_gate_bootstrapping_ciphertext(ps);
            typedef void (*G2)(LweSample *, const LweSample *, const LweSample *, const TFheGateBootstrappingCloudKeySet *);
            G2 gs[] = {bootsNAND, bootsAND, bootsOR, bootsXOR, bootsXNOR, bootsNOR, bootsANDNY, bootsANDYN, bootsORNY, bootsORYN};
            for (int bits = 0; bits < 4; bits++) { bootsSymEncrypt(in3, bits & 1, sk); bootsSymEncrypt(in3 + 1, bits >> 1, sk); bootsSymEncrypt(in3 + 2, 1, sk);
                for (auto g : gs) { g(r1, in3, in3 + 1, &sk->cloud); g(r2, in3, in3 + 1, ck); if (memcmp(r1->a, r2->a, n * 4) || r1->b != r2->b) { violation(key, "a gate evaluated under the re-imported cloud key gives different ciphertext bytes"); return; }
                    if (bootsSymDecrypt(r1, sk) != bootsSymDecrypt(r2, sk2)) { violation(key, "re-imported secret key decrypts differently"); return; } eval(1); }
                bootsMUX(r1, in3, in3 + 1, in3 + 2, &sk->cloud); bootsMUX(r2, in3, in3 + 1, in3 + 2, ck); if (memcmp(r1->a, r2->a, n * 4) || r1->b != r2->b) { violation(key, "MUX under the re-imported cloud key differs"); return; } }
            nontrivial(1); outcome(mix(lam, 7 + file));
        }, 900);
        if (f.died()) violation(key, "process died: " + fate_str(f) + " " + f.text.substr(0, 300));
    }
}

// histories: objects written back-to-back into one stream and read back in order
static void history_cases() {
    auto &T = types(); int nt = (int)T.size(); int depth = quick() ? 2 : 3;
    std::vector<std::vector<int>> seqs;
    for (int a = 0; a < nt; a++) for (int b = 0; b < nt; b++) { if (depth == 2) seqs.push_back({a, b}); else for (int c = 0; c < nt; c++) { if ((T[a].needs_keysets + T[b].needs_keysets + T[c].needs_keysets) > 1) continue; seqs.push_back({a, b, c}); } }
    for (auto &s : seqs) for (int file = 0; file < 2; file++) {
        std::string key = "history/"; for (int t : s) key += std::string(T[t].name) + ","; key += file ? "/FILE" : "/stream";
        if (!take(key)) continue; if (deadline()) return; current(key);
        bool ks = false; for (int t : s) ks = ks || T[t].needs_keysets;
        Fate f = forked([&] {
            Cfg c; if (ks) { c.n = 2; c.N = 1024; c.k = 1; c.l = 1; c.Bgbit = 8; c.t = 2; c.basebit = 1; c.keysets = true; } c.content = 3; c.seed = 7; c = with_reals(c, 8); // reals exactly representable in 8 decimals here: histories test framing
            c.la_min = 0.125; c.la_max = 0.5; c.ta_min = 0.25; c.ta_max = 0.75;
            World w(c); Out o(file); std::vector<size_t> ends;
            for (int t : s) { T[t].exp(w, o); ends.push_back(o.bytes().size()); }
            std::string bytes = o.bytes(); In in(file, bytes);
            for (size_t q = 0; q < s.size(); q++) { void *h = T[s[q]].imp(w, in); std::string e = h ? T[s[q]].cmp(w, h) : "NULL"; if (!e.empty()) { violation(key, fmt("object %zu (%s) of the concatenation differs after import: ", q + 1, T[s[q]].name) + e); return; }
                long p = in.pos(); if (p != (long)ends[q]) { violation(key, fmt("after object %zu (%s) the stream is at %ld, the object ended at %zu", q + 1, T[s[q]].name, p, ends[q])); return; } }
            eval(1); nontrivial(1); outcome(mix(s[0] * 16 + s[1], file));
        }, 300);
        if (f.died()) violation(key, "process died while reading back a concatenation of valid exports: " + fate_str(f) + " " + f.text.substr(0, 300));
    }
    sample("history/TGswKey,LweParams,/FILE: two exports back-to-back in one FILE, imported in order, each compared, stream position == end of each object");
}

// real-valued parameters: a large deterministic alphabet of doubles through the text encoding (LweParams / TLweParams carry two reals each).
// value i of chunk c = sign-free double with seeded 52-bit mantissa and an exponent sweeping [2^-40, 2^-1]; plus decimal-short values m*10^-e.
static void reals_alphabet() {
    int per = (int)opti("reals_per_chunk", quick() ? 16384 : 262144);
    for (int chunk = 0; chunk < 64; chunk++) {
        std::string key = fmt("reals/chunk=%d", chunk);
        if (!take(key)) continue; if (deadline()) return; current(key);
        Fate f = forked([&] {
            uint64_t x = 0xC05 + 7919ull * chunk + S().seed; uint64_t bad = 0;
            for (int i = 0; i < per && bad < 3; i++) {
                double v[2];
                for (int q = 0; q < 2; q++) { uint64_t r = splitmix(x); if (i % 8 == 7) { int e = 1 + (int)(r % 12); uint64_t m = 1 + (r >> 8) % 99999; v[q] = (double)m; for (int z = 0; z < e + 4; z++) v[q] /= 10.; if (v[q] > 0.5) v[q] = 0.5; }
                    else { uint64_t bits = ((uint64_t)(1023 - 1 - (r % 40)) << 52) | (r >> 12); memcpy(&v[q], &bits, 8); } }
                std::ostringstream os; std::string bytes; double g0, g1; bool tl = i & 1, reexp_differs = false;
                if (tl) { TLweParams *p = new_TLweParams(8, 1, v[0], v[1]); export_tLweParams_toStream(os, p); bytes = os.str(); std::istringstream is(bytes); TLweParams *q = new_tLweParams_fromStream(is); g0 = q->alpha_min; g1 = q->alpha_max; std::ostringstream o2; export_tLweParams_toStream(o2, q); if (o2.str() != bytes) reexp_differs = true; delete_TLweParams(p); }
                else { LweParams *p = new_LweParams(5, v[0], v[1]); export_lweParams_toStream(os, p); bytes = os.str(); std::istringstream is(bytes); LweParams *q = new_lweParams_fromStream(is); g0 = q->alpha_min; g1 = q->alpha_max; std::ostringstream o2; export_lweParams_toStream(o2, q); if (o2.str() != bytes) reexp_differs = true; delete_LweParams(p); }
                if (memcmp(&g0, &v[0], 8) || memcmp(&g1, &v[1], 8) || reexp_differs) { bad++; violation(key, fmt("%s with alpha_min=%.17g (%a) alpha_max=%.17g (%a) comes back as %.17g (%a), %.17g (%a)%s", tl ? "TLweParams" : "LweParams", v[0], v[0], v[1], v[1], g0, g0, g1, g1, reexp_differs ? "; the imported object re-exports to different bytes" : "")); }
            }
            eval(per); nontrivial(per); outcome(mix(chunk, per));
        }, 600);
        if (f.died()) violation(key, "process died during export/import of parameter objects: " + fate_str(f) + " " + f.text.substr(0, 300));
    }
    sample("reals/chunk=17: 16384 (quick) pairs of doubles (seeded mantissa, exponents 2^-40..2^-1, every 8th a short decimal m*10^-e) as alpha_min/alpha_max of LweParams/TLweParams: bit-identical after export+import, re-export identical");
}

// histories over near-identical objects: A, then B which differs from A in exactly ONE parameter field, then A again, imported in one process:
// each must come back field-for-field equal to its own original (an importer must not hand out an earlier, "equal enough" object)
static void variation_histories() {
    auto &T = types();
    static const char *FN[] = {"la_min", "la_max", "ta_min", "ta_max", "n", "k", "l", "Bgbit", "t", "basebit"};
    for (size_t ti = 0; ti < T.size(); ti++) for (int field = 0; field < 10; field++) for (int file = 0; file < 2; file++) {
        if (T[ti].needs_keysets && field >= 4) continue;
        std::string key = fmt("variation/%s/%s/%s", T[ti].name, FN[field], file ? "FILE" : "stream");
        if (!take(key)) continue; if (deadline()) return; current(key);
        Fate f = forked([&] {
            Cfg a; if (T[ti].needs_keysets) { a.n = 2; a.N = 1024; a.k = 1; a.l = 1; a.Bgbit = 8; a.t = 2; a.basebit = 1; a.keysets = true; } else { a.n = 3; a.N = 8; a.k = 1; a.l = 2; a.Bgbit = 4; a.t = 2; a.basebit = 1; }
            a.content = 5; a.seed = 11; a.la_min = 7.18e-9; a.la_max = 0.012467; a.ta_min = 2.44e-5; a.ta_max = 0.3;
            Cfg b = a; switch (field) { case 0: b.la_min = 1e-3; break; case 1: b.la_max = 0.1; break; case 2: b.ta_min = 1e-12; break; case 3: b.ta_max = 0.5; break; case 4: b.n++; break; case 5: b.k++; break; case 6: b.l++; break; case 7: b.Bgbit++; break; case 8: b.t++; break; default: b.basebit++; }
            World wa(a), wb(b); World *ws[3] = {&wa, &wb, &wa};
            Out o(file); for (int q = 0; q < 3; q++) T[ti].exp(*ws[q], o);
            std::string bytes = o.bytes(); In in(file, bytes);
            void *h[3]; for (int q = 0; q < 3; q++) { h[q] = T[ti].imp(*ws[q], in); if (!h[q]) { violation(key, fmt("import %d of 3 returned NULL", q + 1)); return; } }
            for (int q = 0; q < 3; q++) { std::string e = T[ti].cmp(*ws[q], h[q]); if (!e.empty()) { violation(key, fmt("%s: object %d of the sequence A, B (= A with another %s), A differs from its original after import: ", T[ti].name, q + 1, FN[field]) + e); return; }
                Out o2(file); T[ti].reexp(h[q], *ws[q], o2); Out o3(file); T[ti].exp(*ws[q], o3); if (o2.bytes() != o3.bytes()) { violation(key, fmt("%s: object %d of the sequence A, B (= A with another %s), A re-exports to different bytes", T[ti].name, q + 1, FN[field])); return; } }
            eval(3); nontrivial(1); outcome(mix(ti * 16 + field, file));
        }, 300);
        if (f.died()) violation(key, "process died while importing a sequence of valid exports: " + fate_str(f) + " " + f.text.substr(0, 300));
    }
    sample("variation/TGswKey/ta_max/stream: TGswKey under parameters A, under B = A with alpha_max of the ring parameters changed from 0.3 to 0.5, and under A again, imported from one stream: each equals its own original and re-exports identically");
}

int main(int argc, char **argv) {
    init(argc, argv);
    std::string part = opt("part", "all");
    if (part == "all" || part == "single") { default_cases(); single_cases(); keyset_cases(); }
    if (part == "all" || part == "history") { history_cases(); variation_histories(); }
    if (part == "all" || part == "reals") reals_alphabet();
    return finish();
}
