#!/usr/bin/env python3
"""C20 — all library variants are interchangeable and usable from C.  Exhaustive over configurations:
   5 back-ends x {optim, debug}: exported-symbol sets; every header of the include closure of tfhe.h compiled alone as C99 and C++11;
   sizeof/offsetof of every public structure/field identical between C and C++; behavioural dump identical across languages and variants;
   spqlios assembly offsets against the implementation structures.  Writes a vf-format result JSON."""
import sys, os, re, json, subprocess, hashlib, time
t0 = time.time()
args = sys.argv[1:]; out = args[args.index('--out') + 1]; tier = args[args.index('--tier') + 1]
only = args[args.index('--only') + 1] if '--only' in args else None
BUILD = os.environ['VF_BUILD']; REPO = os.environ['VF_REPO']; VERIF = os.environ['VF_VERIF']
INC = os.path.join(REPO, 'src', 'include')
BE = ['spqlios-fma', 'spqlios-avx', 'nayuki-portable', 'nayuki-avx', 'fftw']; BT = ['optim', 'debug']
W = os.path.join(BUILD, 'c20'); os.makedirs(W, exist_ok=True)
res = dict(backend='all', variant='all', tier=tier, shard=0, nshards=1, evaluations=0, nontrivial=0, exhaustive=True, deadline_hit=False, outcomes=[], samples=[], violations=[], stats={}, info={})
outs = set()
def want(k): return only is None or only == k
def viol(k, m): res['violations'].append({'key': k, 'msg': m[:900]})
def sh(cmd, **kw): return subprocess.run(cmd, stdout=subprocess.PIPE, stderr=subprocess.STDOUT, universal_newlines=True, **kw)
def case(k, nontrivial=True):
    res['evaluations'] += 1
    if nontrivial: res['nontrivial'] += 1

# ---- the public API: every function declared EXPORT in the include closure of tfhe.h (computed now, from the working tree)
r = sh(['gcc', '-std=c99', '-x', 'c', '-M', '-I' + INC, os.path.join(INC, 'tfhe.h')])
closure_c = sorted(set(x for x in r.stdout.replace('\\\n', ' ').split() if x.startswith(INC)))
r = sh(['g++', '-std=c++11', '-x', 'c++', '-M', '-I' + INC, os.path.join(INC, 'tfhe.h')])
closure_cpp = sorted(set(x for x in r.stdout.replace('\\\n', ' ').split() if x.startswith(INC)))
# preprocess as C with EXPORT kept as a marker
tmpinc = os.path.join(W, 'inc'); os.makedirs(tmpinc, exist_ok=True)
for f in os.listdir(INC):
    s = open(os.path.join(INC, f), errors='replace').read()
    if f == 'tfhe_core.h': s = re.sub(r'#define EXPORT\s*\n', '#define EXPORT __VFEXPORT__\n', s)
    open(os.path.join(tmpinc, f), 'w').write(s)
pp = sh(['gcc', '-std=c99', '-x', 'c', '-E', '-P', '-I' + tmpinc, os.path.join(tmpinc, 'tfhe.h')]).stdout
api = sorted(set(re.findall(r'__VFEXPORT__\s+[^;{}()]*?\b(\w+)\s*\(', pp)))
res['stats']['max_api_functions'] = len(api)
if len(api) < 100: viol('api/parse', 'only %d EXPORT functions found in the include closure: header parsing failed' % len(api))

# ---- 1. exported symbols: for every API name, "defined with C linkage" must have the same truth value in all ten libraries
syms = {}
for bt in BT:
    for be in BE:
        lib = os.path.join(BUILD, 'lib', bt, 'libtfhe', 'libtfhe-%s.so' % be)
        o = sh(['nm', '-D', '--defined-only', lib]).stdout
        syms[(bt, be)] = set(l.split()[-1] for l in o.splitlines() if len(l.split()) >= 3 and l.split()[-2] in 'TtWwiBbDdRr')
        if not syms[(bt, be)]: viol('symbols/%s/%s' % (bt, be), 'no dynamic symbols in ' + lib)
undefined_everywhere = []
for name in api:
    k = 'symbols/' + name
    if not want(k): continue
    present = [(c, name in syms[c]) for c in sorted(syms)]
    vals = set(p for _, p in present)
    case(k, nontrivial=(True in vals))
    if len(vals) > 1:
        viol(k, 'public function %s is exported by %s but not by %s' % (name, ['%s/%s' % c for c, p in present if p], ['%s/%s' % c for c, p in present if not p]))
    elif vals == {False}: undefined_everywhere.append(name)
    outs.add('sym:%s' % (True in vals))
res['info']['declared_but_defined_in_no_variant'] = ','.join(undefined_everywhere)
# also: the full exported C-linkage API sets (non-mangled names) of the five variants of one build must coincide up to back-end internals
for bt in BT:
    k = 'symbols-sets/' + bt
    if not want(k): continue
    base = None
    for be in BE:
        pub = set(n for n in syms[(bt, be)] if n in api)
        if base is None: base = (be, pub)
        elif pub != base[1]: viol(k, 'API symbol sets differ between %s and %s: %s' % (base[0], be, sorted(pub ^ base[1])[:10]))
    case(k)

# ---- 2. every header of the closure compiles alone as C99 and as C++11 (-Wall -Werror)
for lang, std, comp, closure in (('c', 'c99', 'gcc', closure_c), ('c++', 'c++11', 'g++', closure_cpp)):
    for h in closure:
        k = 'header/%s/%s' % (lang, os.path.basename(h))
        if not want(k): continue
        r = sh([comp, '-std=' + std, '-x', lang, '-fsyntax-only', '-Wall', '-Werror', '-I' + INC, h])
        case(k)
        if r.returncode: viol(k, '%s does not compile alone as %s: %s' % (os.path.basename(h), std, r.stdout[-500:]))
        outs.add('hdr:%s:%d' % (lang, r.returncode))
# headers of the C closure must be a subset of the C++ closure (a C program sees nothing a C++ program does not)
missing = [os.path.basename(h) for h in closure_c if h not in closure_cpp]
if missing: viol('header/closure', 'headers visible from C but not from C++: %s' % missing)

# ---- 3. sizeof / offsetof of every public structure and field: C view == C++ view
structs = re.findall(r'struct\s+(\w+)\s*\{([^{}]*)\}\s*;', pp)
lines = ['#include <stdio.h>', '#include <stddef.h>', '#include "tfhe.h"', '#include "tfhe_io.h"', 'int main(void){']
nfields = 0
for name, body in structs:
    lines.append('printf("sizeof %s %%lu\\n",(unsigned long)sizeof(struct %s));' % (name, name))
    for decl in body.split(';'):
        decl = decl.strip()
        if not decl: continue
        m = re.search(r'(\w+)\s*(\[[^\]]*\])?\s*$', decl)
        if not m: continue
        lines.append('printf("offsetof %s.%s %%lu\\n",(unsigned long)offsetof(struct %s,%s));' % (name, m.group(1), name, m.group(1))); nfields += 1
lines.append('return 0;}')
src = os.path.join(W, 'layout.c'); open(src, 'w').write('\n'.join(lines))
res['stats']['max_public_structs'] = len(structs); res['stats']['max_public_fields'] = nfields
if len(structs) < 15: viol('layout/parse', 'only %d public structures found: header parsing failed' % len(structs))
tabs = {}
for lang, comp, std in (('c', 'gcc', 'c99'), ('c++', 'g++', 'c++11')):
    exe = os.path.join(W, 'layout-' + lang.replace('+', 'p'))
    r = sh([comp, '-std=' + std, '-x', lang, '-Wall', '-Werror'] + (['-Wno-invalid-offsetof'] if lang == 'c++' else []) + ['-I' + INC, src, '-o', exe])
    if r.returncode: viol('layout/compile/' + lang, 'layout program does not compile as %s: %s' % (std, r.stdout[-600:])); continue
    tabs[lang] = sh([exe]).stdout.splitlines()
if len(tabs) == 2:
    tc = dict(l.rsplit(' ', 1) for l in tabs['c']); tp = dict(l.rsplit(' ', 1) for l in tabs['c++'])
    for item in sorted(set(tc) | set(tp)):
        k = 'layout/' + item.replace(' ', '/')
        if not want(k): continue
        case(k)
        if tc.get(item) != tp.get(item): viol(k, '%s is %s in C and %s in C++' % (item, tc.get(item), tp.get(item)))
        outs.add('lay:' + str(tc.get(item)))

# ---- 4. behavioural dump: C99 and C++11 programs x 10 library variants -> identical text
dumps = {}
dsrc = os.path.join(VERIF, 'harness', 'c20_dump.c')
for lang, comp, std in (('c', 'gcc', 'c99'), ('c++', 'g++', 'c++11')):
    for bt in BT:
        for be in BE:
            k = 'dump/%s/%s/%s' % (lang, bt, be)
            ld = os.path.join(BUILD, 'lib', bt, 'libtfhe')
            exe = os.path.join(W, 'dump-%s-%s-%s' % (lang.replace('+', 'p'), bt, be))
            r = sh([comp, '-std=' + std, '-O1', '-x', lang, '-Wall', '-Werror', '-I' + INC, dsrc, '-o', exe, '-L' + ld, '-ltfhe-' + be, '-Wl,-rpath,' + ld] + (['-lstdc++'] if lang == 'c' else []))
            if r.returncode: viol(k, 'a %s program does not compile/link against this variant: %s' % (std, r.stdout[-600:])); continue
            rr = sh([exe]); case(k)
            if rr.returncode: viol(k, 'dump program failed rc=%d: %s' % (rr.returncode, rr.stdout[-300:])); continue
            dumps[k] = rr.stdout
if dumps:
    ref_k = sorted(dumps)[0]
    for k in sorted(dumps):
        if want(k) and dumps[k] != dumps[ref_k]:
            a = dumps[ref_k].splitlines(); b = dumps[k].splitlines(); d = next((i for i in range(min(len(a), len(b))) if a[i] != b[i]), min(len(a), len(b)))
            viol(k, 'objects observed differ from %s: line %d: %r vs %r' % (ref_k, d, a[d] if d < len(a) else None, b[d] if d < len(b) else None))
    outs.add('dump:' + hashlib.sha1(dumps[ref_k].encode()).hexdigest()[:8]); res['samples'].append('dump (first lines): ' + ' | '.join(dumps[ref_k].splitlines()[:3]))

# ---- 5. spqlios assembly offsets (proc at 8, coefsC at 0, Ns2 at 8) against the implementation structures
k = 'spqlios-offsets'
if want(k):
    spq = os.path.join(REPO, 'src', 'libtfhe', 'fft_processors', 'spqlios')
    s5 = os.path.join(W, 'spq.cpp')
    asm = ''.join(open(os.path.join(spq, f)).read() for f in ('lagrangehalfc_impl_fma.s', 'lagrangehalfc_impl_avx.s'))
    used = set(re.findall(r'movq\s+(\d*)\(%rdi\),\s*%rax\s*/\* rax: proc', asm)) , set(re.findall(r'movl\s+(\d+)\(%rax\),\s*%ecx\s*/\* ecx: Ns2', asm)), set(re.findall(r'movq\s+(\d*)\(%rdi\),\s*%r8\s', asm))
    exp_proc, exp_ns2, exp_coefs = used
    # only the fields the assembly really addresses are probed (private structures are free to change otherwise)
    f_proc = 'offsetof(LagrangeHalfCPolynomial_IMPL,proc)' if exp_proc else '(size_t)0'
    f_ns2 = 'offsetof(FFT_Processor_Spqlios,Ns2)' if exp_ns2 else '(size_t)0'
    open(s5, 'w').write('#include <cstdio>\n#include <cstddef>\n#include "lagrangehalfc_impl.h"\nint main(){printf("%%zu %%zu %%zu\\n",offsetof(LagrangeHalfCPolynomial_IMPL,coefsC),%s,%s);}\n' % (f_proc, f_ns2))
    r = sh(['g++', '-std=gnu++11', '-Wno-invalid-offsetof', '-I' + INC, '-I' + spq, s5, '-o', os.path.join(W, 'spq')])
    if r.returncode: viol(k, 'cannot compile the offset probe: ' + r.stdout[-400:])
    else:
        o = sh([os.path.join(W, 'spq')]).stdout.split(); case(k)
        norm = lambda st: set(x if x else '0' for x in st)
        if norm(exp_proc) - {o[1]} or norm(exp_ns2) - {o[2]} or norm(exp_coefs) - {o[0]}:
            viol(k, 'assembly addresses proc/Ns2/coefsC at %s/%s/%s but the structures place them at %s/%s/%s' % (sorted(norm(exp_proc)), sorted(norm(exp_ns2)), sorted(norm(exp_coefs)), o[1], o[2], o[0]))
        outs.add('spq:' + ','.join(o))

res['samples'] += ['symbols/bootsNAND: defined with C linkage in all of 5 back-ends x {optim,debug}', 'header/c/lwesamples.h: gcc -std=c99 -fsyntax-only -Wall -Werror', 'layout/offsetof/TGswParams.offset: C == C++']
res['outcomes'] = sorted('%016x' % (int(hashlib.sha1(o.encode()).hexdigest()[:16], 16)) for o in outs)
res['wall_s'] = time.time() - t0
json.dump(res, open(out, 'w'))
