// C03 — decrypt(encrypt(m)) == m exactly for LWE, TLWE (constant and polynomial), TGSW and gate ciphertexts; trivial samples under every key.
#include "vf.hpp"
#include "ref.hpp"
#include <tfhe.h>
#include <cmath>
using namespace vf;

static void seed_gen(const std::string &key, int k) { uint32_t v[3] = {(uint32_t)S().seed, (uint32_t)fnv(key.data(), key.size()), (uint32_t)k}; tfhe_random_generator_setSeed(v, 3); }
static std::vector<int> messages(int M) { std::vector<int> m; if (M <= 64) for (int i = 0; i < M; i++) m.push_back(i); else m = {0, 1, M / 2, M - 1}; return m; }
static const int MS[] = {2, 3, 4, 5, 7, 8, 16, 17, 64, 1000, 1024, 65537, 1 << 20, 1234567};
static std::vector<double> alphas(int M) { return {0., std::pow(2., -30), std::pow(2., -25), std::min(std::pow(2., -15), 1. / (20. * M)), 1. / (40. * M), 1. / (20. * M)}; }

static void lwe_cases(int K) {
    for (int n : {1, 2, 7, 8, 9, 152, 250, 500, 630, 1023, 1024, 1025}) for (int M : MS) for (int ai = 0; ai < 6; ai++) for (int k = 0; k < K; k++) {
        double alpha = alphas(M)[ai];
        std::string key = fmt("lwe/n=%d/M=%d/alpha=%d/seed=%d", n, M, ai, k);
        if (!take(key)) continue; if (deadline()) return;
        current(key); seed_gen(key, k);
        LweParams *p = new_LweParams(n, alpha, 0.25); LweKey *sk = new_LweKey(p); lweKeyGen(sk); LweSample *c = new_LweSample(p);
        std::vector<int> msgs = messages(M); if (M > 64 && n <= 8 && ai <= 1) { uint64_t xm = M * 31 + n; for (int q = 0; q < 3000; q++) msgs.push_back((int)(splitmix(xm) % (uint64_t)M)); }   // large message spaces: 3000 seeded messages more on the small dimensions
        for (int m : msgs) {
            Torus32 mu = modSwitchToTorus32(m, M);
            lweSymEncrypt(c, mu, alpha, sk);
            Torus32 d = lweSymDecrypt(c, sk, M);
            if (d != mu) { violation(key, fmt("LWE n=%d Msize=%d alpha=%.3g: message %d (0x%08x) decrypts to 0x%08x", n, M, alpha, m, (uint32_t)mu, (uint32_t)d)); break; }
            // the sibling that takes its noise from the caller (used by key generation): noise +-(1/4M) is inside the decryptable range, and the phase is message + noise exactly
            { double ext = ((m & 1) ? 1.0 : -1.0) / (4.0 * M); lweSymEncryptWithExternalNoise(c, mu, ext, alpha, sk); Torus32 d2 = lweSymDecrypt(c, sk, M); Torus32 ph = lwePhase(c, sk);
              if (d2 != mu || ph != (Torus32)((uint32_t)mu + (uint32_t)dtot32(ext))) { violation(key, fmt("lweSymEncryptWithExternalNoise n=%d Msize=%d: message %d with caller noise %.3g: phase 0x%08x, decrypts to 0x%08x, message 0x%08x", n, M, m, ext, (uint32_t)ph, (uint32_t)d2, (uint32_t)mu)); break; } }
            eval(2); if (alpha > 0 && m) nontrivial(1);
        }
        outcome(mix(fnv(c->a, n * 4 > 16 ? 16 : n * 4), M));
        delete_LweSample(c); delete_LweKey(sk); delete_LweParams(p);
    }
    sample("lwe/n=9/M=17/alpha=5(=1/(20*17))/seed=0: all 17 messages, lweSymDecrypt(lweSymEncrypt(m/17)) == m/17 exactly");
}

// every message of large message spaces, through the decryption's rounding alone: a noiseless trivial sample of m/Msize must decrypt to exactly
// its encoding for ALL m (the rounding constants of encoder and decoder have to agree for every m, not only for small or boundary ones)
static void all_messages_cases() {
    for (int M : {65537, 100003, 1000000, 1000003, 1234567, 1 << 20, 3 << 18, 32767, 40000}) {
        std::string key = fmt("all-messages/M=%d", M); if (!take(key)) continue; if (deadline()) return; current(key);
        LweParams *p = new_LweParams(2, 0., 0.25); LweKey *sk = new_LweKey(p); sk->key[0] = 1; sk->key[1] = 0; LweSample *c = new_LweSample(p); bool ok = true;
        for (int m = 0; m < M && ok; m++) { Torus32 mu = modSwitchToTorus32(m, M); lweNoiselessTrivial(c, mu, p); Torus32 d = lweSymDecrypt(c, sk, M);
            if (d != mu) { violation(key, fmt("trivial LWE sample of %d/%d (0x%08x) decrypts to 0x%08x", m, M, (uint32_t)mu, (uint32_t)d)); ok = false; } }
        eval(M); nontrivial(M); outcome(mix(M, 0xA11)); delete_LweSample(c); delete_LweKey(sk); delete_LweParams(p);
    }
    sample("all-messages/M=1000003: every m in [0,M): lweSymDecrypt(trivial sample of m/M) == modSwitchToTorus32(m, M)");
}

static void tlwe_cases(int K) {
    const int N = 1024;
    for (int kk : {1, 2, 3, 4}) for (int M : MS) for (int ai = 0; ai < 6; ai++) for (int k = 0; k < K; k++) {
        double alpha = alphas(M)[ai];
        std::string key = fmt("tlwe/k=%d/M=%d/alpha=%d/seed=%d", kk, M, ai, k);
        if (!take(key)) continue; if (deadline()) return;
        current(key); seed_gen(key, k);
        TLweParams *p = new_TLweParams(N, kk, alpha, 0.25); TLweKey *sk = new_TLweKey(p); tLweKeyGen(sk); TLweSample *c = new_TLweSample(p);
        TorusPolynomial *msg = new_TorusPolynomial(N), *dec = new_TorusPolynomial(N);
        // polynomial message: coefficient j carries message (j*7+3) mod M  -> every message of [0,M) appears for M <= 1024
        for (int j = 0; j < N; j++) msg->coefsT[j] = modSwitchToTorus32((j * 7 + 3) % M, M);
        tLweSymEncrypt(c, msg, alpha, sk); tLweSymDecrypt(dec, c, sk, M);
        for (int j = 0; j < N; j++) if (dec->coefsT[j] != msg->coefsT[j]) { violation(key, fmt("TLWE polynomial k=%d Msize=%d alpha=%.3g: coefficient %d message 0x%08x decrypts to 0x%08x", kk, M, alpha, j, (uint32_t)msg->coefsT[j], (uint32_t)dec->coefsT[j])); break; }
        eval(N); if (alpha > 0) nontrivial(N - N / M - 1);
        // constant messages
        for (int m : messages(M)) { Torus32 mu = modSwitchToTorus32(m, M); tLweSymEncryptT(c, mu, alpha, sk); Torus32 d = tLweSymDecryptT(c, sk, M);
            if (d != mu) { violation(key, fmt("TLWE constant k=%d Msize=%d alpha=%.3g: message %d decrypts to 0x%08x instead of 0x%08x", kk, M, alpha, m, (uint32_t)d, (uint32_t)mu)); break; } eval(1); if (alpha > 0 && m) nontrivial(1); }
        outcome(mix(fnv(c->b->coefsT, 16), M));
        delete_TorusPolynomial(msg); delete_TorusPolynomial(dec); delete_TLweSample(c); delete_TLweKey(sk); delete_TLweParams(p);
    }
    sample("tlwe/k=2/M=1000/alpha=4: polynomial message with coefficient j = ((7j+3) mod 1000)/1000 and constants {0,1,500,999}/1000");
}

static void tgsw_cases(int K) {
    const int N = 1024;
    struct L { int l, Bgbit; } Ls[] = {{2, 10}, {3, 7}, {4, 8}, {2, 16}};
    for (auto L_ : Ls) for (int kk : {1, 2, 3}) for (int mb = 1; mb <= L_.Bgbit && mb <= 10; mb += (mb < 3 ? 1 : 3)) for (int ai = 0; ai < 6; ai++) for (int k = 0; k < K; k++) {
        int M = 1 << mb; double Bg = (double)(1 << L_.Bgbit);
        // decryptable maximum of tGswSymDecrypt: the digit of 1/Msize (magnitude Bg/Msize) multiplies the row noise: Msize*alpha*(Bg/Msize) <= 1/20
        double amax = 1. / (20. * Bg); double as[6] = {0., std::pow(2., -30), std::min(std::pow(2., -25), amax), amax / 4, amax / 2, amax}; double alpha = as[ai];
        std::string key = fmt("tgsw/l=%d/Bgbit=%d/k=%d/M=%d/alpha=%d/seed=%d", L_.l, L_.Bgbit, kk, M, ai, k);
        if (!take(key)) continue; if (deadline()) return;
        current(key); seed_gen(key, k);
        TLweParams *tp = new_TLweParams(N, kk, alpha, 0.25); TGswParams *gp = new_TGswParams(L_.l, L_.Bgbit, tp); TGswKey *sk = new_TGswKey(gp); tGswKeyGen(sk);
        TGswSample *c = new_TGswSample(gp); IntPolynomial *msg = new_IntPolynomial(N), *dec = new_IntPolynomial(N);
        for (int j = 0; j < N; j++) msg->coefs[j] = (j * 5 + 1) % M;
        tGswSymEncrypt(c, msg, alpha, sk); tGswSymDecrypt(dec, c, sk, M);
        for (int j = 0; j < N; j++) if (((dec->coefs[j] - msg->coefs[j]) % M + M) % M != 0) { violation(key, fmt("TGSW l=%d Bgbit=%d k=%d Msize=%d alpha=%.3g: coefficient %d message %d decrypts to %d", L_.l, L_.Bgbit, kk, M, alpha, j, msg->coefs[j], dec->coefs[j])); break; }
        eval(N); if (alpha > 0) nontrivial(N - N / M);
        for (int m : {0, 1, M - 1}) { tGswSymEncryptInt(c, m, alpha, sk); tGswSymDecrypt(dec, c, sk, M);
            for (int j = 0; j < N; j++) if (((dec->coefs[j] - (j ? 0 : m)) % M + M) % M != 0) { violation(key, fmt("TGSW constant message %d (Msize=%d alpha=%.3g): coefficient %d decrypts to %d", m, M, alpha, j, dec->coefs[j])); break; } eval(1); }
        // noiseless trivial TGSW decrypts to its message under this (and any) key
        tGswNoiselessTrivial(c, msg, gp); tGswSymDecrypt(dec, c, sk, M);
        for (int j = 0; j < N; j++) if (((dec->coefs[j] - msg->coefs[j]) % M + M) % M != 0) { violation(key, fmt("trivial TGSW: coefficient %d message %d decrypts to %d (Msize=%d)", j, msg->coefs[j], dec->coefs[j], M)); break; }
        eval(1);
        outcome(mix(fnv(c->all_sample[0].b->coefsT, 16), M + L_.l));
        delete_IntPolynomial(msg); delete_IntPolynomial(dec); delete_TGswSample(c); delete_TGswKey(sk); delete_TGswParams(gp); delete_TLweParams(tp);
    }
    sample("tgsw/l=3/Bgbit=7/k=1/M=8/alpha=5(=1/(20*Bg)): message polynomial with coefficient j = (5j+1) mod 8; tGswSymDecrypt == message mod 8");
}

// histories: a decryption must not depend on what was decrypted before in the same process (other parameter set, same Msize; other Msize, same set)
static void history_cases() {
    const int N = 1024;
    struct L { int l, Bgbit; } Ls[] = {{2, 10}, {3, 7}, {4, 8}, {2, 16}, {3, 10}};
    for (int a = 0; a < 5; a++) for (int b = 0; b < 5; b++) for (int M : {2, 4, 8}) for (int M2 : {0, 1}) {
        if (a == b && !M2) continue;
        int Mb = M2 ? (M == 8 ? 2 : M * 2) : M;
        std::string key = fmt("history/tgsw/(%d,%d)M=%d-then-(%d,%d)M=%d-then-first", Ls[a].l, Ls[a].Bgbit, M, Ls[b].l, Ls[b].Bgbit, Mb);
        if (!take(key)) continue; if (deadline()) return;
        current(key); seed_gen(key, 0);
        TLweParams *tp = new_TLweParams(N, 1, 0., 0.25); TGswParams *gp[2] = {new_TGswParams(Ls[a].l, Ls[a].Bgbit, tp), new_TGswParams(Ls[b].l, Ls[b].Bgbit, tp)};
        TGswKey *sk[2]; TGswSample *c[2]; IntPolynomial *msg = new_IntPolynomial(N), *dec = new_IntPolynomial(N); int Ms[2] = {M, Mb};
        for (int q = 0; q < 2; q++) { sk[q] = new_TGswKey(gp[q]); tGswKeyGen(sk[q]); c[q] = new_TGswSample(gp[q]); }
        for (int step = 0; step < 3; step++) { int q = step == 1 ? 1 : 0; int Mq = Ms[q]; double alpha = 1. / (80. * (1 << (q ? Ls[b].Bgbit : Ls[a].Bgbit)));
            for (int j = 0; j < N; j++) msg->coefs[j] = (j * 3 + step) % Mq;
            tGswSymEncrypt(c[q], msg, alpha, sk[q]); tGswSymDecrypt(dec, c[q], sk[q], Mq);
            for (int j = 0; j < N; j++) if (((dec->coefs[j] - msg->coefs[j]) % Mq + Mq) % Mq != 0) { violation(key, fmt("step %d (l=%d Bgbit=%d Msize=%d): coefficient %d message %d decrypts to %d after earlier decryptions in this process", step + 1, q ? Ls[b].l : Ls[a].l, q ? Ls[b].Bgbit : Ls[a].Bgbit, Mq, j, msg->coefs[j], dec->coefs[j])); step = 3; break; }
            eval(1); }
        nontrivial(1); outcome(mix(a * 5 + b, M * 2 + M2));
        for (int q = 0; q < 2; q++) { delete_TGswSample(c[q]); delete_TGswKey(sk[q]); delete_TGswParams(gp[q]); } delete_IntPolynomial(msg); delete_IntPolynomial(dec); delete_TLweParams(tp);
    }
    // LWE / TLWE: alternate dimensions and message spaces
    for (int M : {3, 8, 1000}) for (int M2 : {5, 8, 17}) {
        std::string key = fmt("history/lwe-tlwe/M=%d,%d", M, M2);
        if (!take(key)) continue; if (deadline()) return;
        current(key); seed_gen(key, 0);
        LweParams *p1 = new_LweParams(9, 1e-4, 0.25), *p2 = new_LweParams(630, 1e-4, 0.25); LweKey *k1 = new_LweKey(p1), *k2 = new_LweKey(p2); lweKeyGen(k1); lweKeyGen(k2); LweSample *c1 = new_LweSample(p1), *c2 = new_LweSample(p2);
        TLweParams *t1 = new_TLweParams(N, 1, 1e-6, 0.25), *t2 = new_TLweParams(N, 2, 1e-6, 0.25); TLweKey *tk1 = new_TLweKey(t1), *tk2 = new_TLweKey(t2); tLweKeyGen(tk1); tLweKeyGen(tk2); TLweSample *tc1 = new_TLweSample(t1), *tc2 = new_TLweSample(t2);
        TorusPolynomial *msg = new_TorusPolynomial(N), *dec = new_TorusPolynomial(N);
        for (int step = 0; step < 6; step++) { int Mq = (step & 1) ? M2 : M; bool ok = true;
            Torus32 mu = modSwitchToTorus32((step + 1) % Mq, Mq);
            LweKey *kk = (step % 3 == 0) ? k1 : k2; LweSample *cc = (step % 3 == 0) ? c1 : c2; lweSymEncrypt(cc, mu, 1e-4, kk); if (lweSymDecrypt(cc, kk, Mq) != mu) ok = false;
            TLweKey *tk = (step % 2) ? tk2 : tk1; TLweSample *tc = (step % 2) ? tc2 : tc1; for (int j = 0; j < N; j++) msg->coefsT[j] = modSwitchToTorus32((j + step) % Mq, Mq);
            tLweSymEncrypt(tc, msg, 1e-6, tk); tLweSymDecrypt(dec, tc, tk, Mq); if (memcmp(dec->coefsT, msg->coefsT, N * 4)) ok = false;
            tLweSymEncryptT(tc, mu, 1e-6, tk); if (tLweSymDecryptT(tc, tk, Mq) != mu) ok = false;
            if (!ok) { violation(key, fmt("step %d (Msize=%d): a decryption differs from the message after earlier operations in this process", step + 1, Mq)); break; } eval(3); }
        nontrivial(1); outcome(mix(M, M2));
    }
    // the same key OBJECT re-generated: whatever is cached per key must not survive new key content
    for (int kk : {1, 2, 3}) for (int M : {4, 5}) {
        std::string key = fmt("history/rekey/k=%d/M=%d", kk, M);
        if (!take(key)) continue; if (deadline()) return;
        current(key); seed_gen(key, 0);
        TLweParams *tp = new_TLweParams(N, kk, 1e-6, 0.25); TGswParams *gp = new_TGswParams(3, 7, tp); TGswKey *gk = new_TGswKey(gp); TLweKey *tk = new_TLweKey(tp); TLweSample *c = new_TLweSample(tp); TGswSample *g = new_TGswSample(gp);
        TorusPolynomial *msg = new_TorusPolynomial(N), *dec = new_TorusPolynomial(N); IntPolynomial *im = new_IntPolynomial(N), *id = new_IntPolynomial(N); LweParams *lp = new_LweParams(7, 1e-4, 0.25); LweKey *lk = new_LweKey(lp); LweSample *lc = new_LweSample(lp);
        for (int round = 0; round < 3; round++) { tLweKeyGen(tk); tGswKeyGen(gk); lweKeyGen(lk); bool ok = true;
            for (int j = 0; j < N; j++) { msg->coefsT[j] = modSwitchToTorus32((j + round) % M, M); im->coefs[j] = (j * 3 + round) % 4; }
            tLweSymEncrypt(c, msg, 1e-6, tk); tLweSymDecrypt(dec, c, tk, M); if (memcmp(dec->coefsT, msg->coefsT, N * 4)) ok = false;
            Torus32 mu = modSwitchToTorus32((round + 1) % M, M); tLweSymEncryptT(c, mu, 1e-6, tk); if (tLweSymDecryptT(c, tk, M) != mu) ok = false;
            tGswSymEncrypt(g, im, 1e-6 / 128, gk); tGswSymDecrypt(id, g, gk, 4); for (int j = 0; j < N; j++) if (((id->coefs[j] - im->coefs[j]) % 4 + 4) % 4) { ok = false; break; }
            lweSymEncrypt(lc, mu, 1e-4, lk); if (lweSymDecrypt(lc, lk, M) != mu) ok = false;
            if (!ok) { violation(key, fmt("after re-generating the same key objects (round %d) a fresh encryption no longer decrypts to its message", round + 1)); break; } eval(4); }
        nontrivial(1); outcome(mix(kk, M + 50));
    }
    sample("history/tgsw/(3,10)M=4-then-(4,8)M=4-then-first: three encrypt/decrypt round trips in one process, alternating parameter sets with the same Msize");
}

static void trivial_cases(int K) {
    for (int n : {1, 7, 630}) for (int M : MS) {
        std::string key = fmt("trivial/lwe/n=%d/M=%d", n, M);
        if (!take(key)) continue; if (deadline()) return;
        current(key);
        LweParams *p = new_LweParams(n, 0., 0.25); LweSample *c = new_LweSample(p);
        for (int k = 0; k < 4 * K; k++) { seed_gen(key, k); LweKey *sk = new_LweKey(p); lweKeyGen(sk); if (k == 0) for (int i = 0; i < n; i++) sk->key[i] = 1;
            for (int m : messages(M)) { Torus32 mu = modSwitchToTorus32(m, M); lweNoiselessTrivial(c, mu, p); if (lweSymDecrypt(c, sk, M) != mu) { violation(key, fmt("trivial LWE sample of %d/%d decrypts to 0x%08x under key %d", m, M, (uint32_t)lweSymDecrypt(c, sk, M), k)); break; } eval(1); nontrivial(m ? 1 : 0); }
            delete_LweKey(sk); }
        outcome(mix(n, M)); delete_LweSample(c); delete_LweParams(p);
    }
    for (int kk : {1, 2, 3}) for (int M : {2, 5, 8, 1000}) {
        std::string key = fmt("trivial/tlwe/k=%d/M=%d", kk, M);
        if (!take(key)) continue; if (deadline()) return;
        current(key);
        TLweParams *p = new_TLweParams(1024, kk, 0., 0.25); TLweSample *c = new_TLweSample(p); TorusPolynomial *msg = new_TorusPolynomial(1024), *dec = new_TorusPolynomial(1024);
        for (int j = 0; j < 1024; j++) msg->coefsT[j] = modSwitchToTorus32((j * 3 + 1) % M, M);
        for (int k = 0; k < 2 * K; k++) { seed_gen(key, k); TLweKey *sk = new_TLweKey(p); tLweKeyGen(sk); tLweNoiselessTrivial(c, msg, p); tLweSymDecrypt(dec, c, sk, M);
            if (memcmp(dec->coefsT, msg->coefsT, 4096)) violation(key, fmt("trivial TLWE sample does not decrypt to its message under key %d", k)); eval(1); nontrivial(1); delete_TLweKey(sk); }
        outcome(mix(kk, M + 100)); delete_TorusPolynomial(msg); delete_TorusPolynomial(dec); delete_TLweSample(c); delete_TLweParams(p);
    }
}

static void gate_cases(int K) {
    for (int lam : {80, 128}) for (int k = 0; k < K; k++) {
        std::string key = fmt("gate/lambda=%d/seed=%d", lam, k);
        if (!take(key)) continue; if (deadline()) return;
        current(key); seed_gen(key, k);
        TFheGateBootstrappingParameterSet *ps = new_default_gate_bootstrapping_parameters(lam);
        TFheGateBootstrappingSecretKeySet *sk = new_random_gate_bootstrapping_secret_keyset(ps);
        LweSample *c = new_gate_bootstrapping_ciphertext(ps);
        for (int rep = 0; rep < 2000; rep++) { int bit = rep & 1; bootsSymEncrypt(c, bit, sk); int d = bootsSymDecrypt(c, sk); if (d != bit) { violation(key, fmt("fresh gate ciphertext of %d decrypts to %d (lambda=%d, encryption #%d)", bit, d, lam, rep)); break; } eval(1); nontrivial(1); }
        for (int bit = 0; bit < 2; bit++) { bootsCONSTANT(c, bit, &sk->cloud); if (bootsSymDecrypt(c, sk) != bit) violation(key, fmt("bootsCONSTANT(%d) decrypts wrongly", bit)); eval(1); }
        outcome(mix(fnv(c->a, 16), lam));
        delete_gate_bootstrapping_ciphertext(c); delete_gate_bootstrapping_secret_keyset(sk); delete_gate_bootstrapping_parameters(ps);
    }
    sample("gate/lambda=128/seed=0: 2000 fresh bootsSymEncrypt(bit) -> bootsSymDecrypt, bootsCONSTANT under the key");
}

int main(int argc, char **argv) {
    init(argc, argv);
    int K = (int)opti("K", quick() ? 1 : 4);
    lwe_cases(K); all_messages_cases(); tlwe_cases(K); tgsw_cases(K); history_cases(); trivial_cases(K); gate_cases(K);
    return finish();
}
