// C14 — LWE/TLWE linear operations act exactly linearly on phases, for every dimension; extraction of every coefficient.
// Every dimension group runs in a forked child (a guard-page fault or sanitizer abort is attributed to the case in flight).
#include "vf.hpp"
#include "ref.hpp"
#include <tfhe.h>
#include <lwe-functions.h>
#include <tlwe_functions.h>
#include <polynomials_arithmetic.h>
#include <cmath>

extern "C" void tLweNoiselessTrivialT(TLweSample *result, const Torus32 mu, const TLweParams *params); // defined and exported by the library, missing from tlwe_functions.h
using namespace vf;

static const int32_t PS[] = {0, 1, -1, 2, -3, 32767, INT32_MIN};
static void fillv(Torus32 *p, int n, int kind, uint64_t seed) { uint64_t x = seed * 1000003 + kind; for (int i = 0; i < n; i++) p[i] = kind == 0 ? INT32_MIN : kind == 1 ? INT32_MAX : (Torus32)splitmix(x); }
static const char *KN[] = {"MIN", "MAX", "seeded"};

struct Snap { std::vector<uint32_t> a; uint32_t b; double var; };
static Snap snap(const LweSample *s, int n) { Snap r; r.a.assign((uint32_t *)s->a, (uint32_t *)s->a + n); r.b = (uint32_t)s->b; r.var = s->current_variance; return r; }

static bool veq(double got, double want) { return std::fabs(got - want) <= 1e-12 * (std::fabs(want) + 1e-300) || got == want; }

static void lwe_group(int n) {
    LweParams *par = new_LweParams(n, 0., 1.);
    LweSample *r = new_LweSample(par), *c2 = new_LweSample(par);
    LweKey *keys[4]; for (int k = 0; k < 4; k++) { keys[k] = new_LweKey(par); uint64_t x = 31 + n; for (int i = 0; i < n; i++) keys[k]->key[i] = k == 0 ? 0 : k == 1 ? 1 : k == 2 ? (int)(splitmix(x) & 1) : (i % 5 == 0 ? -1 : i % 5 == 1 ? 2 : i % 5 == 2 ? (int32_t)splitmix(x) : (int)(splitmix(x) % 7) - 3); }   // key 3: arbitrary integers (ternary, small, full-width): the phase is b - <a,s> for any integer key
    static const char *OPS[] = {"Clear", "Copy", "Negate", "NoiselessTrivial", "AddTo", "SubTo", "AddMulTo", "SubMulTo"};
    for (int op = 0; op < 8; op++) for (int pi = 0; pi < (op >= 6 ? 7 : 1); pi++) for (int alias = 0; alias < ((op == 0 || op == 3) ? 1 : 2); alias++) for (int k1 = 0; k1 < 3; k1++) for (int k2 = 0; k2 < (alias || op == 0 || op == 3 ? 1 : 3); k2++) {
        int32_t p = op >= 6 ? PS[pi] : 1;
        std::string key = fmt("lwe/n=%d/op=%s/p=%d/alias=%d/c1=%s/c2=%s", n, OPS[op], p, alias, KN[k1], KN[k2]);
        if (!want(key)) continue;
        current(key);
        fillv(r->a, n, k1, 1); r->b = k1 == 0 ? INT32_MIN : k1 == 1 ? INT32_MAX : 0x1234567; r->current_variance = 0.25e-6;
        fillv(c2->a, n, k2, 2); c2->b = k2 == 0 ? INT32_MIN : k2 == 1 ? INT32_MAX : (Torus32)0x89abcdef; c2->current_variance = 1e-6;
        LweSample *src = alias ? r : c2;
        Snap R = snap(r, n), C = snap(src, n);
        uint32_t up = (uint32_t)p; Torus32 mu = (Torus32)0xDEADBEEF;
        // the library's own phase / decryption of the result object BEFORE the in-place operation (a client that reads the phase before and after must see both)
        uint32_t lib_before[4]; for (int k = 0; k < 4; k++) lib_before[k] = (uint32_t)lwePhase(r, keys[k]); Torus32 dec_before = lweSymDecrypt(r, keys[2], 8);
        switch (op) { case 0: lweClear(r, par); break; case 1: lweCopy(r, src, par); break; case 2: lweNegate(r, src, par); break; case 3: lweNoiselessTrivial(r, mu, par); break;
                      case 4: lweAddTo(r, src, par); break; case 5: lweSubTo(r, src, par); break; case 6: lweAddMulTo(r, p, src, par); break; case 7: lweSubMulTo(r, p, src, par); break; }
        // expected coefficients
        auto ex = [&](uint32_t rv, uint32_t cv) -> uint32_t { switch (op) { case 0: return 0; case 1: return cv; case 2: return 0u - cv; case 3: return 0; case 4: return rv + cv; case 5: return rv - cv; case 6: return rv + up * cv; default: return rv - up * cv; } };
        bool ok = true;
        for (int i = 0; i < n && ok; i++) if ((uint32_t)r->a[i] != ex(R.a[i], C.a[i])) { violation(key, fmt("mask coefficient %d of the result is 0x%08x, exact value 0x%08x", i, (uint32_t)r->a[i], ex(R.a[i], C.a[i]))); ok = false; }
        uint32_t eb = op == 3 ? (uint32_t)mu : ex(R.b, C.b);
        if (ok && (uint32_t)r->b != eb) { violation(key, fmt("b of the result is 0x%08x, exact value 0x%08x", (uint32_t)r->b, eb)); ok = false; }
        // the operand must be unchanged unless aliased
        if (ok && !alias && op != 0 && op != 3) { Snap C2 = snap(c2, n); if (C2.a != C.a || C2.b != C.b || C2.var != C.var) { violation(key, "input operand modified"); ok = false; } }
        // phase identity under three keys (library lwePhase against the reference phase of the expected combination)
        for (int k = 0; k < 4 && ok; k++) {
            uint32_t pr = (uint32_t)ref::lwe_phase((Torus32 *)R.a.data(), (Torus32)R.b, keys[k]->key, n), pc = (uint32_t)ref::lwe_phase((Torus32 *)C.a.data(), (Torus32)C.b, keys[k]->key, n);
            uint32_t wantph = op == 3 ? (uint32_t)mu : ex(pr, pc);
            uint32_t got = (uint32_t)lwePhase(r, keys[k]);
            if (lib_before[k] != pr) { violation(key, fmt("lwePhase of the first operand under key %d before the operation is 0x%08x, reference 0x%08x", k, lib_before[k], pr)); ok = false; break; }
            if (k == 2) { Torus32 d_after = lweSymDecrypt(r, keys[2], 8); Torus32 wd = approxPhase((Torus32)wantph, 8), wb = approxPhase((Torus32)pr, 8); if (dec_before != wb || d_after != wd) { violation(key, fmt("lweSymDecrypt(.,8) before/after the operation gives 0x%08x / 0x%08x, expected 0x%08x / 0x%08x", (uint32_t)dec_before, (uint32_t)d_after, (uint32_t)wb, (uint32_t)wd)); ok = false; break; } }
            if (got != wantph) { violation(key, fmt("phase of the result under key %d is 0x%08x, phase(c1) op p*phase(c2) = 0x%08x", k, got, wantph)); ok = false; }
        }
        // variance annotation
        if (ok) { double w; switch (op) { case 0: case 3: w = 0; break; case 1: case 2: w = C.var; break; case 4: case 5: w = R.var + C.var; break; default: w = R.var + (double)p * (double)p * C.var; }
            if (!(op >= 6 && (p >= 32768 || p <= -32768)) && !veq(r->current_variance, w)) { violation(key, fmt("variance annotation %.17g, expected %.17g", r->current_variance, w)); ok = false; } }
        eval(1);
        if ((n % 8 != 0 || n < 8 || (p != 0 && p != 1))) nontrivial(1);
        outcome(mix(fnv(r->a, n * 4 > 32 ? 32 : n * 4), op));
    }
    current(fmt("lwe/n=%d/(end-of-group)", n));
    for (int k = 0; k < 4; k++) delete_LweKey(keys[k]);
    delete_LweSample(r); delete_LweSample(c2); delete_LweParams(par);
}

// exact TLWE phase: b - sum a_i * s_i  (negacyclic)
static void tlwe_phase(std::vector<Torus32> &ph, const TLweSample *s, const TLweKey *key, int N, int k) {
    ph.assign(s->b->coefsT, s->b->coefsT + N); std::vector<Torus32> t(N);
    for (int i = 0; i < k; i++) { ref::negacyclic_mul_fast(t.data(), key->key[i].coefs, s->a[i].coefsT, N); for (int j = 0; j < N; j++) ph[j] = (Torus32)((uint32_t)ph[j] - (uint32_t)t[j]); }
}

static void tlwe_group(int N, int k) {
    TLweParams *par = new_TLweParams(N, k, 0., 1.);
    TLweSample *r = new_TLweSample(par), *c2 = new_TLweSample(par);
    TLweKey *key = new_TLweKey(par); { uint64_t x = N * 13 + k; for (int i = 0; i < k; i++) for (int j = 0; j < N; j++) key->key[i].coefs[j] = (int)(splitmix(x) & 1); }
    TorusPolynomial *mu = new_TorusPolynomial(N); fillv(mu->coefsT, N, 2, 77);
    static const char *OPS[] = {"Clear", "Copy", "NoiselessTrivial", "NoiselessTrivialT", "AddTo", "SubTo", "AddMulTo", "SubMulTo", "AddTTo", "MulByXaiMinusOne"};
    std::vector<int> as; if (N <= 64) for (int a = 0; a < 2 * N; a++) as.push_back(a); else as = {0, 1, N - 1, N, N + 1, 2 * N - 1, N / 2, N + N / 2};
    for (int op = 0; op < 10; op++) {
        int nvar = op >= 6 && op <= 7 ? 7 : op == 9 ? (int)as.size() : op == 8 ? k + 1 : 1;
        for (int vi = 0; vi < nvar; vi++) for (int k1 = 0; k1 < 3; k1++) {
            int32_t p = (op == 6 || op == 7) ? PS[vi] : 1; int a = op == 9 ? as[vi] : 0; int pos = op == 8 ? vi : 0;
            std::string key_ = fmt("tlwe/N=%d/k=%d/op=%s/v=%d/c=%s", N, k, OPS[op], op == 9 ? a : op == 8 ? pos : p, KN[k1]);
            if (!want(key_)) continue;
            current(key_);
            for (int i = 0; i <= k; i++) { fillv(r->a[i].coefsT, N, k1, 3 + i); fillv(c2->a[i].coefsT, N, (k1 + 1) % 3 == 0 ? 2 : (k1 + 1) % 3, 9 + i); }
            r->current_variance = 0.5e-6; c2->current_variance = 2e-6;
            std::vector<std::vector<uint32_t>> R(k + 1), C(k + 1);
            for (int i = 0; i <= k; i++) { R[i].assign((uint32_t *)r->a[i].coefsT, (uint32_t *)r->a[i].coefsT + N); C[i].assign((uint32_t *)c2->a[i].coefsT, (uint32_t *)c2->a[i].coefsT + N); }
            std::vector<Torus32> phR, phC; tlwe_phase(phR, r, key, N, k); tlwe_phase(phC, c2, key, N, k);
            uint32_t up = (uint32_t)p; Torus32 x = (Torus32)0xCAFEF00D;
            switch (op) { case 0: tLweClear(r, par); break; case 1: tLweCopy(r, c2, par); break; case 2: tLweNoiselessTrivial(r, mu, par); break; case 3: tLweNoiselessTrivialT(r, x, par); break;
                          case 4: tLweAddTo(r, c2, par); break; case 5: tLweSubTo(r, c2, par); break; case 6: tLweAddMulTo(r, p, c2, par); break; case 7: tLweSubMulTo(r, p, c2, par); break;
                          case 8: tLweAddTTo(r, pos, x, par); break; case 9: tLweMulByXaiMinusOne(r, a, c2, par); break; }
            bool ok = true;
            std::vector<Torus32> rot(N);
            for (int i = 0; i <= k && ok; i++) {
                if (op == 9) ref::mul_by_xai(rot.data(), a, (Torus32 *)C[i].data(), N);
                for (int j = 0; j < N && ok; j++) {
                    uint32_t w;
                    switch (op) { case 0: w = 0; break; case 1: w = C[i][j]; break; case 2: w = i < k ? 0 : (uint32_t)mu->coefsT[j]; break; case 3: w = (i == k && j == 0) ? (uint32_t)x : 0; break;
                                  case 4: w = R[i][j] + C[i][j]; break; case 5: w = R[i][j] - C[i][j]; break; case 6: w = R[i][j] + up * C[i][j]; break; case 7: w = R[i][j] - up * C[i][j]; break;
                                  case 8: w = R[i][j] + ((i == pos && j == 0) ? (uint32_t)x : 0); break; default: w = (uint32_t)rot[j] - C[i][j]; }
                    if ((uint32_t)r->a[i].coefsT[j] != w) { violation(key_, fmt("component %d coefficient %d of the result is 0x%08x, exact value 0x%08x", i, j, (uint32_t)r->a[i].coefsT[j], w)); ok = false; }
                }
            }
            for (int i = 0; i <= k && ok; i++) if (memcmp(c2->a[i].coefsT, C[i].data(), N * 4)) { violation(key_, "input operand modified"); ok = false; }
            // phase-level statement (exact negacyclic reference), N <= 128 to bound the cost
            if (ok && N <= 128) {
                std::vector<Torus32> ph; tlwe_phase(ph, r, key, N, k);
                std::vector<Torus32> rotph(N); if (op == 9) ref::mul_by_xai(rotph.data(), a, phC.data(), N);
                std::vector<Torus32> sx; if (op == 8 && pos < k) { sx.resize(N); for (int j = 0; j < N; j++) sx[j] = (Torus32)((uint32_t)key->key[pos].coefs[j] * (uint32_t)x); }
                for (int j = 0; j < N && ok; j++) {
                    uint32_t pr = phR[j], pc = phC[j], w;
                    switch (op) { case 0: w = 0; break; case 1: w = pc; break; case 2: w = mu->coefsT[j]; break; case 3: w = j == 0 ? (uint32_t)x : 0; break; case 4: w = pr + pc; break; case 5: w = pr - pc; break;
                                  case 6: w = pr + up * pc; break; case 7: w = pr - up * pc; break; case 8: w = pos == k ? pr + (j == 0 ? (uint32_t)x : 0) : pr - (uint32_t)sx[j]; break; default: w = (uint32_t)rotph[j] - pc; }
                    if ((uint32_t)ph[j] != w) { violation(key_, fmt("phase coefficient %d of the result is 0x%08x, expected 0x%08x", j, (uint32_t)ph[j], w)); ok = false; }
                }
            }
            if (ok) { double w = -1; switch (op) { case 0: case 2: case 3: w = 0; break; case 1: w = 2e-6; break; case 4: case 5: w = 0.5e-6 + 2e-6; break; case 6: case 7: w = 0.5e-6 + (double)p * (double)p * 2e-6; break; default: w = -1; }
                if (w >= 0 && !((op == 6 || op == 7) && (p >= 32768 || p <= -32768)) && !veq(r->current_variance, w)) { violation(key_, fmt("variance annotation %.17g, expected %.17g", r->current_variance, w)); } }
            eval(1); nontrivial(1);
            outcome(mix(fnv(r->a[0].coefsT, N * 4 > 32 ? 32 : N * 4), op));
        }
    }
    current(fmt("tlwe/N=%d/k=%d/(end-of-group)", N, k));
    delete_TorusPolynomial(mu); delete_TLweKey(key); delete_TLweSample(r); delete_TLweSample(c2); delete_TLweParams(par);
}

static void extract_group(int N, int k) {
    TLweParams *par = new_TLweParams(N, k, 0., 1.);
    const LweParams *lp = &par->extracted_lweparams;
    TLweSample *s = new_TLweSample(par); TLweKey *key = new_TLweKey(par); LweKey *lk = new_LweKey(lp); LweSample *out = new_LweSample(lp);
    for (int kind = 0; kind < 3; kind++) {
        uint64_t x = N + 5 * k + kind; for (int i = 0; i < k; i++) for (int j = 0; j < N; j++) key->key[i].coefs[j] = (int)(splitmix(x) & 1);
        for (int i = 0; i <= k; i++) fillv(s->a[i].coefsT, N, kind, 40 + i);
        tLweExtractKey(lk, key);
        for (int i = 0; i < k; i++) for (int j = 0; j < N; j++) if (lk->key[i * N + j] != key->key[i].coefs[j]) { violation(fmt("extract/N=%d/k=%d/key", N, k), "tLweExtractKey does not concatenate the key polynomials"); break; }
        std::vector<Torus32> ph; tlwe_phase(ph, s, key, N, k);
        for (int j = 0; j < N; j++) {
            std::string key_ = fmt("extract/N=%d/k=%d/c=%s/j=%d", N, k, KN[kind], j);
            if (!want(key_)) continue;
            current(key_);
            for (int i = 0; i < k * N; i++) out->a[i] = 0x5a5a5a5a; out->b = 0x5a5a5a5a;
            tLweExtractLweSampleIndex(out, s, j, lp, par);
            Torus32 got = ref::lwe_phase(out->a, out->b, lk->key, k * N);
            if (got != ph[j]) violation(key_, fmt("phase of the extracted sample 0x%08x != coefficient %d of the TLWE phase 0x%08x", (uint32_t)got, j, (uint32_t)ph[j]));
            if (j == 0) { tLweExtractLweSample(out, s, lp, par); if (ref::lwe_phase(out->a, out->b, lk->key, k * N) != ph[0]) violation(key_, "tLweExtractLweSample (index 0) phase mismatch"); }
            eval(1); nontrivial(1); outcome(mix((uint64_t)got, j));
        }
    }
    current(fmt("extract/N=%d/k=%d/(end-of-group)", N, k));
    delete_LweSample(out); delete_LweKey(lk); delete_TLweKey(key); delete_TLweSample(s); delete_TLweParams(par);
}

static void run_group(const std::string &prefix, const std::function<void()> &fn) {
    if (!take_group(prefix)) return;
    if (deadline()) return;
    current(prefix + "(start)");
    Fate f = forked(fn, 300);
    if (f.died()) violation(curkey(), "process died in this case: " + fate_str(f) + " " + f.text.substr(0, 400));
}

int main(int argc, char **argv) {
    init(argc, argv);
    std::vector<int> ns; for (int n = 1; n <= 40; n++) ns.push_back(n); for (int n : {500, 630, 1023, 1024, 1025, 2048}) ns.push_back(n);
    for (int n : ns) run_group(fmt("lwe/n=%d/", n), [n] { lwe_group(n); });
    for (int N = 2; N <= 1024; N *= 2) for (int k = 1; k <= 3; k++) run_group(fmt("tlwe/N=%d/k=%d/", N, k), [N, k] { tlwe_group(N, k); });
    for (int N : {3, 5, 6, 7, 12, 100, 500, 1023}) for (int k = 1; k <= 2; k++) run_group(fmt("tlwe/N=%d/k=%d/", N, k), [N, k] { tlwe_group(N, k); });   // ring degrees that are not powers of two
    for (int N : {2, 8, 1024, 3, 5, 6, 7, 12, 100, 1023}) for (int k = 1; k <= 2; k++) run_group(fmt("extract/N=%d/k=%d/", N, k), [N, k] { extract_group(N, k); });
    sample("lwe/n=3/op=SubTo/p=1/alias=0/c1=seeded/c2=MAX: coefficient arrays, phases under 3 keys (zero, ones, seeded), variance annotation vs exact wrapping arithmetic");
    sample("tlwe/N=16/k=2/op=MulByXaiMinusOne/v=17/c=seeded: components and exact negacyclic phase = (X^a-1)*phase");
    sample("extract/N=1024/k=2/c=seeded/j=1023: phase under tLweExtractKey == coefficient j of the exact TLWE phase");
    return finish();
}
