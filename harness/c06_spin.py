#!/usr/bin/env python3
"""C06 — model + conformance: a Promela model of the per-thread FFTW planner protocol is GENERATED from the event sequence the real
library produces under the controlled scheduler (so a lock added or removed in the code changes the model), Spin checks planner mutual
exclusion and deadlock freedom for 2..4 threads, and the model's complete traces for 2 threads are replayed step by step against the
implementation (directed scheduler mode): thread/event order must match and the implementation must show no violation.  A Spin
counterexample is replayed on the implementation before it is reported."""
import sys, os, re, json, subprocess, time, glob, shutil, hashlib
t0 = time.time()
args = sys.argv[1:]; out = args[args.index('--out') + 1]; tier = args[args.index('--tier') + 1]
only = args[args.index('--only') + 1] if '--only' in args else None
BUILD = os.environ['VF_BUILD']; EXE = os.environ['VF_EXE_C06']; backend = args[args.index('--backend') + 1]
W = os.path.join(BUILD, 'c06spin-' + backend); shutil.rmtree(W, ignore_errors=True); os.makedirs(W)
res = dict(backend=backend, variant='optim', tier=tier, shard=0, nshards=1, evaluations=0, nontrivial=0, exhaustive=True, deadline_hit=False, outcomes=[], samples=[], violations=[], stats={}, info={})
outs = set()
def viol(k, m): res['violations'].append({'key': k, 'msg': m[:900]})
def finish():
    res['outcomes'] = sorted('%016x' % int(hashlib.sha1(o.encode()).hexdigest()[:16], 16) for o in outs); res['wall_s'] = time.time() - t0
    json.dump(res, open(out, 'w')); sys.exit(0)
def harness(extra):
    o = os.path.join(W, 'h.json')
    if os.path.exists(o): os.unlink(o)
    r = subprocess.run([EXE, '--out', o, '--tier', 'quick', '--backend', backend, '--variant', 'optim'] + extra, stdout=subprocess.PIPE, stderr=subprocess.PIPE)
    if r.returncode or not os.path.exists(o): print('harness failed', extra, r.stderr.decode()[-500:], file=sys.stderr); sys.exit(2)
    return json.load(open(o))['info']

RELEVANT = {'mutex_lock', 'mutex_unlock', 'fftw_plan_dft_r2c_1d:pre', 'fftw_destroy_plan:pre'}
PLANNER = {'fftw_plan_dft_r2c_1d:pre', 'fftw_plan_dft_c2r_1d:pre', 'fftw_destroy_plan:pre'}

# ---- 1. record the protocol of one thread from the implementation
ev = [e for e in harness(['part=record', 'threads=2'])['events'].split(',') if e]
per = {}
for e in ev:
    t, lab = e.split(':', 1); per.setdefault(t, []).append(lab)
if per.get('T0') != per.get('T1'): viol('model/record', 'the two threads of the recorded run do not follow the same event sequence'); finish()
seq = per['T0']
# segments: seg[0] = start .. before the first relevant point; seg[i] = relevant point i .. before relevant point i+1 (the last one ends with exit)
segs = [[]]; points = []
for lab in seq:
    if lab in RELEVANT: points.append(lab); segs.append([lab])
    else: segs[-1].append(lab)
res['info']['protocol'] = ' | '.join(','.join(s) for s in segs)
res['stats']['max_model_steps_per_thread'] = len(segs)
uses_planner = any(l in PLANNER for l in seq)

def promela(N, enumerate_paths):
    L = ['#define N %d' % N, 'byte lck = 0;', 'bool pend[N];', 'byte fin = 0;']
    if enumerate_paths: L += ['byte hist[%d]; byte hn = 0;' % (N * len(segs))]
    L += ['inline check() { byte a_; byte c_ = 0; for (a_ : 0 .. N-1) { if :: pend[a_] -> c_++ :: else fi }; assert(c_ <= 1) }']
    L += ['proctype T(byte id) {']
    for i, s in enumerate(segs):
        guard = '(lck == 0) -> lck = id + 1;' if 'acquire' in s else ''
        rel = 'lck = 0;' if 'release' in s else ''
        nxt = points[i] if i < len(points) else None
        pend = 'pend[id] = %s;' % ('true' if nxt in PLANNER else 'false')
        hist = 'hist[hn] = id + 1; hn++;' if enumerate_paths else ''
        last = ' fin++; if :: fin == N -> assert(false) :: else fi;' if (enumerate_paths and i == len(segs) - 1) else (' fin++;' if i == len(segs) - 1 else '')
        L.append('  s%d: atomic { %s %s %s printf("STEP %%d %d\\n", id); %s check();%s }' % (i, guard, rel, pend, i, hist, last))
    L += ['}', 'init { byte i_; atomic { for (i_ : 0 .. N-1) { run T(i_) } } }']
    return '\n'.join(L) + '\n'

def spin_verify(N, enumerate_paths=False, maxerr=1):
    d = os.path.join(W, 'n%d%s' % (N, 'e' if enumerate_paths else '')); os.makedirs(d, exist_ok=True)
    open(os.path.join(d, 'm.pml'), 'w').write(promela(N, enumerate_paths))
    r = subprocess.run(['spin', '-a', 'm.pml'], cwd=d, stdout=subprocess.PIPE, stderr=subprocess.STDOUT, universal_newlines=True)
    if r.returncode or not os.path.exists(os.path.join(d, 'pan.c')): print('spin -a failed', r.stdout[-800:], file=sys.stderr); sys.exit(2)
    r = subprocess.run(['gcc', '-O2', '-DSAFETY', '-DMEMLIM=4096', '-DVECTORSZ=2048'] + (['-DNOREDUCE'] if enumerate_paths else []) + ['-o', 'pan', 'pan.c'], cwd=d, stdout=subprocess.PIPE, stderr=subprocess.STDOUT, universal_newlines=True)
    if r.returncode: print('gcc pan.c failed', r.stdout[-800:], file=sys.stderr); sys.exit(2)
    cmd = ['./pan', '-m100000'] + (['-e', '-c0'] if enumerate_paths else ['-c%d' % maxerr])
    r = subprocess.run(cmd, cwd=d, stdout=subprocess.PIPE, stderr=subprocess.STDOUT, universal_newlines=True, timeout=1200)
    o = r.stdout
    errs = int((re.search(r'errors:\s*(\d+)', o) or [0, '0'])[1]); states = int(float((re.search(r'([\d.e+]+) states, stored', o) or [0, '0'])[1])); trans = int(float((re.search(r'([\d.e+]+) transitions', o) or [0, '0'])[1]))
    return d, errs, states, trans, o

def trail_steps(d, k):
    r = subprocess.run(['spin', '-t%d' % k if k else '-t', 'm.pml'], cwd=d, stdout=subprocess.PIPE, stderr=subprocess.STDOUT, universal_newlines=True)
    return [(int(a), int(b)) for a, b in re.findall(r'STEP (\d+) (\d+)', r.stdout)], r.stdout

def replay_on_impl(steps):
    info = harness(['part=script', 'threads=2', 'relevant=' + ';'.join(sorted(RELEVANT)), 'script=' + '.'.join(str(t) for t, _ in steps)])
    impl = [x for x in info['steps'].split(',') if x]
    return impl, info['verdict']

# ---- 2. verification for 2..4 threads
nmax = 4 if tier == 'thorough' else 3
for N in range(2, nmax + 1):
    key = 'model/verify/N=%d' % N
    if only and only != key: continue
    d, errs, states, trans, o = spin_verify(N)
    res['evaluations'] += 1; res['nontrivial'] += 1; res['stats']['sum_states'] = res['stats'].get('sum_states', 0) + states; res['stats']['sum_transitions'] = res['stats'].get('sum_transitions', 0) + trans
    res['stats']['max_spin_states/N=%d' % N] = states; outs.add('verify%d:%d' % (N, errs))
    if errs:
        steps, txt = trail_steps(d, 0)
        what = 'assertion (two threads pending at FFTW planner calls)' if 'assertion violated' in o else ('deadlock (invalid end state)' if 'invalid end state' in o else 'error')
        msg = 'Spin, %d threads: %s in the protocol model generated from the implementation; counterexample steps (thread,segment): %s' % (N, what, steps[:40])
        if N == 2:
            impl, verdict = replay_on_impl(steps)
            if verdict and verdict != 'DIVERGED': viol(key, msg + ' | replayed on the implementation: ' + verdict)
            else: print('model counterexample does not reproduce on the implementation (%r): the model is unsound' % verdict, file=sys.stderr); sys.exit(2)
        else:
            viol(key, msg)
res['samples'].append('protocol of one thread recorded from the implementation (segments between relevant points): ' + res['info']['protocol'][:400])

# ---- 3. conformance: every complete 2-thread trace of the model replayed on the implementation
key = 'model/conformance/N=2'
if not only or only == key:
    d, errs, states, trans, o = spin_verify(2, enumerate_paths=True)
    trails = sorted(glob.glob(os.path.join(d, 'm.pml*.trail')), key=lambda p: int(re.search(r'pml(\d*)\.trail', p).group(1) or 0))
    res['stats']['max_model_traces_N2'] = len(trails)
    cap = len(trails) if tier == 'thorough' else min(len(trails), 400)
    if cap < len(trails): res['exhaustive'] = False; res['info']['conformance_cap'] = '%d of %d traces replayed in the quick tier (ordered by Spin trail number)' % (cap, len(trails))
    validated = 0; seen = set()
    for tp in trails[:cap]:
        k = int(re.search(r'pml(\d*)\.trail', tp).group(1) or 0)
        steps, _ = trail_steps(d, k)
        sig = tuple(steps)
        if sig in seen or len(steps) != 2 * len(segs): continue
        seen.add(sig)
        impl, verdict = replay_on_impl(steps)
        res['evaluations'] += 1
        if any(a != b for (a, _), (b, _) in zip(steps, steps[1:])): res['nontrivial'] += 1
        ids = [int(x.split(':')[0]) for x in impl]
        if verdict: viol(key + '/trace=%d' % k, 'model trace %s on the implementation: %s' % ('.'.join(str(t) for t, _ in steps), verdict)); break
        if ids != [t for t, _ in steps]: viol(key + '/trace=%d' % k, 'implementation followed thread order %s, the model trace is %s' % (ids, [t for t, _ in steps])); break
        validated += 1; outs.add('trace-ok')
    res['stats']['sum_traces_validated'] = validated
    if trails: res['samples'].append('model trace replayed on the implementation (thread per step): ' + '.'.join(str(t) for t, _ in trail_steps(d, int(re.search(r'pml(\d*)\.trail', trails[len(trails) // 2]).group(1) or 0))[0]))
    if not uses_planner: res['info']['note'] = 'this back-end makes no planner calls: the protocol has no planner section (model trivially safe)'
finish()
