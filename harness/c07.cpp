// C07 — fresh ciphertexts and key rows carry exactly the configured noise, fresh masks; all randomness from the library generator.
//  part=states  : EVERY state of the library generator (minstd_rand0: 2^31-2 states) -> one gaussian32 draw per sigma, one uniform torus draw (+ the next),
//                 one key bit; and one lweSymEncrypt (n=2) + a second one.  Sums are merged by the driver and judged on the whole population.
//  part=objects : key sets for default + small parameter sets over an enumerated seed range: the error of every key-switching row and every
//                 bootstrapping-key coefficient, stratified; masks; secret keys; re-keyed objects.
//  part=seeding : same seed -> same bytes whatever happened before the re-seed; different seeds differ; no other entropy source is reached.
#include "vf.hpp"
#include "ref.hpp"
#include "exactkey.hpp"
#include <tfhe.h>
#include <numeric_functions.h>
#include <lwe-functions.h>
#include <tlwe_functions.h>
#include <tgsw_functions.h>
#include <polynomials_arithmetic.h>
#include <dlfcn.h>
#include <sstream>
#include <cmath>
#include <time.h>
using namespace vf;

// ---- entropy monitor
static volatile int g_armed = 0; static volatile long g_hits = 0; static char g_what[64];
#define MON(name) do { if (g_armed) { g_hits++; strncpy(g_what, name, 63); } } while (0)
extern "C" {
int open(const char *p, int fl, ...) { MON("open"); static int (*real)(const char *, int, ...) = (int (*)(const char *, int, ...))dlsym(RTLD_NEXT, "open"); va_list ap; va_start(ap, fl); int m = va_arg(ap, int); va_end(ap); return real(p, fl, m); }
int open64(const char *p, int fl, ...) { MON("open64"); static int (*real)(const char *, int, ...) = (int (*)(const char *, int, ...))dlsym(RTLD_NEXT, "open64"); va_list ap; va_start(ap, fl); int m = va_arg(ap, int); va_end(ap); return real(p, fl, m); }
ssize_t read(int fd, void *b, size_t n) { MON("read"); static ssize_t (*real)(int, void *, size_t) = (ssize_t(*)(int, void *, size_t))dlsym(RTLD_NEXT, "read"); return real(fd, b, n); }
ssize_t getrandom(void *b, size_t n, unsigned f) { MON("getrandom"); static ssize_t (*real)(void *, size_t, unsigned) = (ssize_t(*)(void *, size_t, unsigned))dlsym(RTLD_NEXT, "getrandom"); return real(b, n, f); }
int rand(void) { MON("rand"); static int (*real)(void) = (int (*)(void))dlsym(RTLD_NEXT, "rand"); return real(); }
long random(void) { MON("random"); static long (*real)(void) = (long (*)(void))dlsym(RTLD_NEXT, "random"); return real(); }
time_t time(time_t *t) { MON("time"); static time_t (*real)(time_t *) = (time_t(*)(time_t *))dlsym(RTLD_NEXT, "time"); return real(t); }
int clock_gettime(clockid_t c, struct timespec *ts) { MON("clock_gettime"); static int (*real)(clockid_t, struct timespec *) = (int (*)(clockid_t, struct timespec *))dlsym(RTLD_NEXT, "clock_gettime"); return real(c, ts); }
}

static const double SIGMAS[] = {9.313225746154785e-10, 2.98023223876953125e-08, 7.18e-9, 3.0517578125e-05, 2.44e-5, 0.0009765625, 0.03125};
static const char *SNAME[] = {"2^-30", "2^-25", "7.18e-9", "2^-15", "2.44e-5", "2^-10", "2^-5"};

struct Mom { double n = 0, s1 = 0, s2 = 0, s4 = 0, mx = 0, zeros = 0; void add(double e) { n++; s1 += e; double e2 = e * e; s2 += e2; s4 += e2 * e2; if (std::fabs(e) > mx) mx = std::fabs(e); if (e == 0) zeros++; }
    void emit(const std::string &k) { stat_sum(k + "/n", n); stat_sum(k + "/s1", s1); stat_sum(k + "/s2", s2); stat_sum(k + "/s4", s4); stat_max(k + "/maxabs", mx); stat_sum(k + "/zeros", zeros); } };

static void part_states() {
    const uint32_t M = 2147483647u; // states 1 .. M-1
    uint32_t stride = quick() ? 64 : 1, r0 = (uint32_t)(S().seed % (quick() ? 64 : 1));
    for (uint32_t c = 0; c < 128; c++) {            // chunks of 2^24 states
        std::string key = fmt("states/chunk=%u", c);
        if (!take(key)) continue; if (deadline()) return; current(key);
        Mom g[7], enc; double hist[4][256]; memset(hist, 0, sizeof hist); double us1 = 0, us2 = 0, ulag = 0, un = 0, bits1 = 0, same = 0;
        LweParams *lp = new_LweParams(2, 3.0517578125e-05, 0.25); LweKey *k = new_LweKey(lp); k->key[0] = 1; k->key[1] = 0; LweSample *c1 = new_LweSample(lp), *c2 = new_LweSample(lp);
        uint64_t lo = (uint64_t)c << 24, hi = lo + (1u << 24);
        for (uint64_t s = lo + r0; s < hi; s += stride) { if (s < 1 || s >= M) continue;
            for (int q = 0; q < 7; q++) { if (quick() && q != 1 && q != 3 && q != 0) continue; generator.seed((uint32_t)s); g[q].add((double)gaussian32(0, SIGMAS[q])); }
            generator.seed((uint32_t)s); Torus32 u = uniformTorus32_distrib(generator), u2 = uniformTorus32_distrib(generator);
            for (int b = 0; b < 4; b++) hist[b][((uint32_t)u >> (8 * b)) & 255]++; double du = (double)u / 4294967296.0, du2 = (double)u2 / 4294967296.0; us1 += du; us2 += du * du; ulag += du * du2; un++;
            generator.seed((uint32_t)s); { std::uniform_int_distribution<int32_t> d(0, 1); bits1 += d(generator); }
            if (thorough() || (s & 0x3C0) == 0) { generator.seed((uint32_t)s); lweSymEncrypt(c1, 0x20000000, 3.0517578125e-05, k); lweSymEncrypt(c2, 0x20000000, 3.0517578125e-05, k);
                enc.add((double)(int32_t)((uint32_t)c1->b - (uint32_t)c1->a[0] - 0x20000000u)); if (c1->a[0] == c2->a[0] && c1->a[1] == c2->a[1] && c1->b == c2->b) same++; }
        }
        for (int q = 0; q < 7; q++) if (g[q].n) g[q].emit(std::string("gauss/") + SNAME[q]);
        enc.emit("lweSymEncrypt/2^-15"); stat_sum("lweSymEncrypt/identical_pairs", same);
        stat_sum("uniform/n", un); stat_sum("uniform/s1", us1); stat_sum("uniform/s2", us2); stat_sum("uniform/lag", ulag); stat_sum("keybit/ones", bits1);
        for (int b = 0; b < 4; b++) for (int v = 0; v < 256; v++) stat_sum(fmt("uniform/hist/%d/%03d", b, v), hist[b][v]);
        eval((uint64_t)un * 4); nontrivial((uint64_t)un); outcome(mix((uint64_t)g[1].s2, c)); stat_sum("states_swept", un);
        if (same > 0) violation(key, fmt("%g generator states give two identical consecutive encryptions of the same message", same));
        delete_LweSample(c1); delete_LweSample(c2); delete_LweKey(k); delete_LweParams(lp);
    }
    sample("states/chunk=64: generator states 2^30..2^30+2^24: gaussian32(0,sigma) for 7 sigma, uniformTorus32 + next draw, key bit, lweSymEncrypt twice (n=2)");
}

// ---- composite objects
struct Strat { std::map<std::string, Mom> m; void add(const std::string &k, double e) { m[k].add(e); } };
static void judge(const std::string &key, const std::string &what, Mom &m, double alpha_units, bool centered_exactly) {
    if (m.n < 200) return; double mean = m.s1 / m.n, var = m.s2 / m.n - mean * mean, sd = std::sqrt(var > 0 ? var : 0);
    double band = 8 * alpha_units / std::sqrt(2 * m.n) + 1.5;   // 8 estimator sigma + discretisation/FFT unit
    stat_max("worst_sd_dev_over_band", std::fabs(sd - alpha_units) / band);
    if (std::fabs(sd - alpha_units) > band) violation(key, fmt("%s: error stdev %.2f units over %g errors, configured %.2f (allowed deviation %.2f)", what.c_str(), sd, m.n, alpha_units, band));
    double mband = centered_exactly ? 1.0 : 8 * alpha_units / std::sqrt(m.n) + 1.0;
    if (std::fabs(mean) > mband) violation(key, fmt("%s: error mean %.3f units over %g errors (allowed %.3f)", what.c_str(), mean, m.n, mband));
    if (m.mx > 8 * alpha_units + 2) violation(key, fmt("%s: an individual error of %.0f units exceeds 8 sigma (sigma = %.2f units)", what.c_str(), m.mx, alpha_units));
    nontrivial(1);
}
struct PS { const char *name; int lam, n, k, l, Bgbit, t, bb; double aks, abk; };
static void part_objects() {
    std::vector<PS> sets = {{"default-128", 128, 0, 0, 0, 0, 0, 0, 0, 0}, {"default-80", 80, 0, 0, 0, 0, 0, 0, 0, 0}};
    const double AS[] = {9.313225746154785e-10, 2.98023223876953125e-08, 3.0517578125e-05, 0.0009765625, 0.03125};
    int idx = 0; for (int n : {8, 9}) for (int k : {1, 2}) for (auto lb : {std::pair<int, int>{2, 10}, {3, 7}}) for (auto tb : {std::pair<int, int>{8, 2}, {16, 1}, {4, 4}, {2, 1}, {1, 2}}) { if ((idx++ % 3) != 0 && quick() && tb.first > 2) continue; sets.push_back({strdup(fmt("small-n%d-k%d-l%d-t%d", n, k, lb.first, tb.first).c_str()), 0, n, k, lb.first, lb.second, tb.first, tb.second, AS[(idx / 2) % 5], AS[(idx / 3 + 1) % 5]}); }
    sets.push_back({"small-n8-k1-l2-t4-noiseless", 0, 8, 1, 2, 10, 4, 2, 0., 0.}); sets.push_back({"small-n9-k2-l3-t3-noiseless", 0, 9, 2, 3, 7, 3, 3, 0., 0.});   // noise parameter exactly 0: exact rows, and still fresh masks
    int K = (int)opti("K", quick() ? 2 : 8);
    for (auto &P : sets) for (int seed = 0; seed < (P.lam ? (quick() ? 2 : 4) : K); seed++) {
        std::string key = fmt("objects/%s/seed=%d", P.name, seed);
        if (!take(key)) continue; if (deadline()) return; current(key);
        Fate f = forked([&] {
            uint32_t sd[3] = {(uint32_t)S().seed, (uint32_t)seed, (uint32_t)fnv(P.name, strlen(P.name))}; tfhe_random_generator_setSeed(sd, 3);
            if (seed & 1) { // odd seeds: another key set with other noise levels is generated first in this process (key generation must not remember an earlier configuration)
                LweParams *lp0 = new_LweParams(5, 0.001, 0.25); TLweParams *tp0 = new_TLweParams(1024, P.lam ? 2 : 1, 3e-6, 0.25); TGswParams *gp0 = new_TGswParams(2, 8, tp0); TFheGateBootstrappingParameterSet *ps0 = new TFheGateBootstrappingParameterSet(3, 3, lp0, gp0);
                TFheGateBootstrappingSecretKeySet *sk0 = new_random_gate_bootstrapping_secret_keyset(ps0); LweSample *c0 = new_gate_bootstrapping_ciphertext(ps0); bootsSymEncrypt(c0, 1, sk0); delete_gate_bootstrapping_ciphertext(c0); delete_gate_bootstrapping_secret_keyset(sk0); }
            TFheGateBootstrappingParameterSet *ps; if (P.lam) ps = new_default_gate_bootstrapping_parameters(P.lam); else { LweParams *lp = new_LweParams(P.n, P.aks, 0.25); TLweParams *tp = new_TLweParams(1024, P.k, P.abk, 0.25); TGswParams *gp = new_TGswParams(P.l, P.Bgbit, tp); ps = new TFheGateBootstrappingParameterSet(P.t, P.bb, lp, gp); }
            g_hits = 0; g_armed = 1; TFheGateBootstrappingSecretKeySet *sk = new_random_gate_bootstrapping_secret_keyset(ps);
            LweSample *fresh = new_gate_bootstrapping_ciphertext_array(64, ps); for (int q = 0; q < 64; q++) bootsSymEncrypt(fresh + q, q & 1, sk); g_armed = 0;
            if (g_hits) violation(key, fmt("key generation / encryption reached %s() (%ld call(s)): all randomness must come from the library generator", g_what, (long)g_hits));
            const int n = ps->in_out_params->n, N = 1024, k = ps->tgsw_params->tlwe_params->k, l = ps->tgsw_params->l, t = ps->ks_t, bb = ps->ks_basebit, base = 1 << bb, kpl = (k + 1) * l;
            double aks = ps->in_out_params->alpha_min * 4294967296.0, abk = ps->tgsw_params->tlwe_params->alpha_min * 4294967296.0;
            // secret keys binary and balanced
            { long w = 0; for (int i = 0; i < n; i++) { int b = sk->lwe_key->key[i]; if (b != 0 && b != 1) { violation(key, "LWE key coefficient not in {0,1}"); break; } w += b; } if (n >= 100 && std::fabs(w - n / 2.0) > 8 * std::sqrt(n) / 2) violation(key, fmt("LWE key weight %ld of %d", w, n));
              long wr = 0; for (int i = 0; i < k; i++) for (int j = 0; j < N; j++) { int b = sk->tgsw_key->key[i].coefs[j]; if (b != 0 && b != 1) { violation(key, "ring key coefficient not in {0,1}"); i = k; break; } wr += b; } if (std::fabs(wr - k * N / 2.0) > 8 * std::sqrt(k * N) / 2) violation(key, fmt("ring key weight %ld of %d", wr, k * N)); }
            // key-switching key
            std::vector<int32_t> ext(k * N); for (int i = 0; i < k; i++) for (int j = 0; j < N; j++) ext[i * N + j] = sk->tgsw_key->key[i].coefs[j];
            Strat st; Mom all; double bytehist[256]; memset(bytehist, 0, sizeof bytehist); double masks = 0;
            const LweKeySwitchKey *ks = sk->cloud.bk->ks;
            for (int i = 0; i < k * N; i++) for (int j = 0; j < t; j++) for (int h = 0; h < base; h++) { const LweSample *r = &ks->ks[i][j][h];
                uint32_t ph = (uint32_t)ref::lwe_phase(r->a, r->b, sk->lwe_key->key, n), msg = (uint32_t)(ext[i] * h) << (32 - (j + 1) * bb); double e = (double)(int32_t)(ph - msg);
                if (h == 0) { bool triv = r->b == 0; for (int q = 0; q < n; q++) if (r->a[q]) triv = false; if (!triv) { violation(key, fmt("key-switching row (%d,%d,0) is not the trivial zero sample", i, j)); i = k * N; j = t; break; } continue; }
                all.add(e); st.add(fmt("ks/digit=%d", j), e); st.add(fmt("ks/h=%d", h), e); st.add(fmt("ks/keybit=%d", ext[i]), e); st.add(fmt("ks/block=%d", i * 8 / (k * N)), e);
                for (int q = 0; q < n && q < 16; q++) { bytehist[((uint32_t)r->a[q] >> 24) & 255]++; masks++; } }
            judge(key, "key-switching rows (all)", all, aks, true);
            { std::string pk = fmt("ksnoise/t=%d,bb=%d,alpha=%.6g", t, bb, ps->in_out_params->alpha_min); stat_sum(pk + "/n", all.n); stat_sum(pk + "/s1", all.s1); stat_sum(pk + "/s2", all.s2); }   // pooled over keys and seeds by the driver (post-merge oracle)
            for (auto &kv : st.m) judge(key, "key-switching rows, stratum " + kv.first, kv.second, aks, false);
            // the key-switching key the gates actually use is the copy inside the FFT key: it must be the same rows, all of them
            { const LweKeySwitchKey *kf = sk->cloud.bkFFT->ks; bool same = kf->n == ks->n && kf->t == ks->t && kf->basebit == ks->basebit && kf->out_params->n == ks->out_params->n;
              for (int i = 0; same && i < k * N; i++) for (int j = 0; same && j < t; j++) for (int h = 0; h < base; h++) { const LweSample *r = &ks->ks[i][j][h], *q = &kf->ks[i][j][h]; if (r->b != q->b || memcmp(r->a, q->a, n * 4)) { same = false; violation(key, fmt("key-switching row (%d,%d,%d) of the FFT bootstrapping key (the one gates use) differs from the generated row", i, j, h)); break; } }
              if (!same && S().violations.empty()) violation(key, "the key-switching key inside the FFT bootstrapping key has other dimensions than the generated one"); }
            if (masks > 50000) for (int v = 0; v < 256; v++) { double ex = masks / 256; if (std::fabs(bytehist[v] - ex) > 8 * std::sqrt(ex)) { violation(key, fmt("key-switching masks: top byte value %d occurs %g times, expected %g", v, bytehist[v], ex)); break; } }
            // bootstrapping key: every coefficient of every row
            Strat sb; Mom ball; std::vector<Torus32> ph(N);
            for (int i = 0; i < n; i++) for (int p = 0; p < kpl; p++) { const TLweSample *row = &sk->cloud.bk->bk[i].all_sample[p]; ek::ring_phase(ph.data(), row, sk->tgsw_key->key, N, k);
                int bloc = p / l, q = p % l; // message: s_i * h_q on component bloc: contributes s_i*h_q*( bloc<k ? -key_bloc : 1 ) to the phase
                for (int j = 0; j < N; j++) { uint32_t msg = 0; if (sk->lwe_key->key[i]) { if (bloc == k) msg = j == 0 ? (uint32_t)ps->tgsw_params->h[q] : 0; else msg = 0u - (uint32_t)sk->tgsw_key->key[bloc].coefs[j] * (uint32_t)ps->tgsw_params->h[q]; }
                    double e = (double)(int32_t)((uint32_t)ph[j] - msg); ball.add(e); if ((j & 7) == 0 || !P.lam) { sb.add(fmt("bk/row=%d", p), e); sb.add(fmt("bk/lane=%d", j & 7), e); sb.add(fmt("bk/keybit=%d", sk->lwe_key->key[i]), e); sb.add(fmt("bk/block=%d", i * 4 / n), e); } } }
            for (int i = 0; i < n; i++) for (int p = 0; p < kpl; p++) for (int q = 0; q < k; q++) { const Torus32 *m = sk->cloud.bk->bk[i].all_sample[p].a[q].coefsT; int nz = 0; for (int j = 0; j < N; j++) if (m[j]) nz++; if (nz < N / 2) { violation(key, fmt("bootstrapping-key row %d of key bit %d: mask polynomial %d has %d non-zero coefficients of %d: not a fresh uniform mask", p, i, q, nz, N)); i = n; p = kpl; break; } }
            judge(key, "bootstrapping-key rows (all)", ball, abk, false); for (auto &kv : sb.m) judge(key, "bootstrapping-key rows, stratum " + kv.first, kv.second, abk, false);
            // fresh gate ciphertexts
            Mom fr; for (int q = 0; q < 64; q++) fr.add((double)(int32_t)((uint32_t)lwePhase(fresh + q, sk->lwe_key) - ((q & 1) ? 0x20000000u : 0xE0000000u)));
            if (fr.mx > 8 * aks + 2) violation(key, fmt("fresh gate ciphertext error %.0f units exceeds 8 sigma (%.1f)", fr.mx, aks)); if (fr.s2 == 0 && aks > 4) violation(key, "fresh gate ciphertexts are noiseless");
            for (int q = 1; q < 64; q++) if (!memcmp(fresh[q].a, fresh[q - 1].a, n * 4)) { violation(key, "two fresh ciphertexts share their mask"); break; }
            // re-keyed objects: generate new keys in the same objects and encrypt again (per-key caches must not survive)
            { TGswKey *rk = new_TGswKey(ps->tgsw_params); TLweSample *c = new_TLweSample(ps->tgsw_params->tlwe_params); Mom rm;
              for (int round = 0; round < 3; round++) { tGswKeyGen(rk); for (int rep = 0; rep < 4; rep++) { tLweSymEncryptZero(c, ps->tgsw_params->tlwe_params->alpha_min, &rk->tlwe_key); ek::ring_phase(ph.data(), c, rk->key, N, k); for (int j = 0; j < N; j++) rm.add((double)ph[j]); } }
              judge(key, "fresh TLWE encryptions under a key object re-generated 3 times", rm, abk, false); }
            // second generation INTO THE SAME key objects (key rotation in place) for the small sets: the rows must be fresh encryptions under the new keys
            if (!P.lam) { LweKey *lk2 = new_LweKey(ps->in_out_params); lweKeyGen(lk2); TGswKey *gk2 = new_TGswKey(ps->tgsw_params); tGswKeyGen(gk2);
              LweBootstrappingKey *bkk = const_cast<LweBootstrappingKey *>(sk->cloud.bk); tfhe_createLweBootstrappingKey(bkk, lk2, gk2);
              std::vector<int> ext2(k * N); for (int i = 0; i < k; i++) for (int j = 0; j < N; j++) ext2[i * N + j] = gk2->key[i].coefs[j];
              Mom again; for (int i = 0; i < k * N; i++) for (int j = 0; j < t; j++) for (int h = 1; h < base; h++) { const LweSample *r = &bkk->ks->ks[i][j][h]; uint32_t phh = (uint32_t)ref::lwe_phase(r->a, r->b, lk2->key, n), msg = (uint32_t)(ext2[i] * h) << (32 - (j + 1) * bb); again.add((double)(int32_t)(phh - msg)); }
              judge(key, "key-switching rows after a second key generation into the same objects", again, aks, true);
              Mom bagain; for (int i = 0; i < n; i++) for (int p = 0; p < kpl; p++) { ek::ring_phase(ph.data(), &bkk->bk[i].all_sample[p], gk2->key, N, k); int bloc = p / l, dig = p % l; for (int j = 0; j < N; j++) { uint32_t m = 0; if (bloc < k) { /* message -s_i*h on key polynomial bloc: phase contribution -key_bloc * s_i * h */ m = 0u - (uint32_t)(lk2->key[i] * gk2->key[bloc].coefs[j]) * (uint32_t)ps->tgsw_params->h[dig]; } else if (j == 0) m = (uint32_t)lk2->key[i] * (uint32_t)ps->tgsw_params->h[dig]; bagain.add((double)(int32_t)((uint32_t)ph[j] - m)); } }
              judge(key, "bootstrapping-key rows after a second key generation into the same objects", bagain, abk, false); }
            eval((uint64_t)(all.n + ball.n)); outcome(mix((uint64_t)ball.s2, n));
        }, 900);
        if (f.died()) violation(key, "process died: " + fate_str(f) + " " + f.text.substr(0, 300));
    }
    sample("objects/default-128/seed=0: errors of 24576 key-switching rows and 3780x1024 bootstrapping-key coefficients computed with the secret keys, stratified by digit, value, key bit, block, row, lane");
}

// ---- secret keys: binary and balanced, judged on a pool of many keys (total and per position class mod 64)
static void part_keybalance() {
    std::string key = "keybalance"; if (!take(key) || deadline()) return; current(key);
    uint32_t sd[2] = {(uint32_t)S().seed, 99}; tfhe_random_generator_setSeed(sd, 2);
    LweParams *lp = new_LweParams(630, 1e-5, 0.1); LweKey *lk = new_LweKey(lp); TLweParams *tp = new_TLweParams(1024, 2, 1e-9, 0.1); TLweKey *tk = new_TLweKey(tp); TGswParams *gp = new_TGswParams(2, 10, tp); TGswKey *gk = new_TGswKey(gp);
    int K = quick() ? 400 : 4000; struct Pool { const char *name; double n = 0, ones = 0; double pos[64][2]; } pools[3] = {{"lweKeyGen"}, {"tLweKeyGen"}, {"tGswKeyGen"}}; for (auto &p : pools) memset(p.pos, 0, sizeof p.pos);
    for (int r = 0; r < K; r++) { lweKeyGen(lk); tLweKeyGen(tk); tGswKeyGen(gk);
        for (int i = 0; i < 630; i++) { int b = lk->key[i]; if (b != 0 && b != 1) { violation(key, "lweKeyGen produced a non-binary coefficient"); return; } pools[0].n++; pools[0].ones += b; pools[0].pos[i & 63][0]++; pools[0].pos[i & 63][1] += b; }
        for (int q = 0; q < 2; q++) for (int j = 0; j < 1024; j++) { int b = tk->key[q].coefs[j], c = gk->key[q].coefs[j]; if ((b | c) & ~1) { violation(key, "ring key generation produced a non-binary coefficient"); return; }
            pools[1].n++; pools[1].ones += b; pools[1].pos[j & 63][0]++; pools[1].pos[j & 63][1] += b; pools[2].n++; pools[2].ones += c; pools[2].pos[j & 63][0]++; pools[2].pos[j & 63][1] += c; } }
    for (auto &p : pools) { double z = (p.ones - p.n / 2) / (std::sqrt(p.n) / 2); stat_max(std::string("keybalance_z/") + p.name, std::fabs(z)); if (std::fabs(z) > 8) violation(key, fmt("%s: %g ones among %g key coefficients (z = %.1f): keys are not balanced", p.name, p.ones, p.n, z));
        for (int c = 0; c < 64; c++) { double zz = (p.pos[c][1] - p.pos[c][0] / 2) / (std::sqrt(p.pos[c][0]) / 2); if (std::fabs(zz) > 8) { violation(key, fmt("%s: coefficients at positions = %d (mod 64): %g ones among %g (z = %.1f)", p.name, c, p.pos[c][1], p.pos[c][0], zz)); break; } } }
    eval((uint64_t)(pools[0].n + pools[1].n + pools[2].n)); nontrivial(3 * 65); outcome(mix((uint64_t)pools[1].ones, K));
}

// ---- seeding
static std::string draw_bundle() { // a fixed sequence of generator consumers -> bytes
    std::string o; LweParams *lp = new_LweParams(5, 1e-4, 0.25); LweKey *k = new_LweKey(lp); lweKeyGen(k); o.append((char *)k->key, 20); LweSample *c = new_LweSample(lp);
    for (int q = 0; q < 3; q++) { lweSymEncrypt(c, 77, 1e-4, k); o.append((char *)c->a, 20); o.append((char *)&c->b, 4); }
    TLweParams *tp = new_TLweParams(1024, 1, 1e-8, 0.25); TLweKey *tk = new_TLweKey(tp); tLweKeyGen(tk); TLweSample *tc = new_TLweSample(tp); tLweSymEncryptT(tc, 5, 1e-8, tk); o.append((char *)tc->b->coefsT, 64); o.append((char *)tc->a[0].coefsT, 64);
    Torus32 g = gaussian32(0, 1e-3); o.append((char *)&g, 4);
    delete_TLweSample(tc); delete_TLweKey(tk); delete_TLweParams(tp); delete_LweSample(c); delete_LweKey(k); delete_LweParams(lp); return o; }
static void part_seeding() {
    struct H { const char *name; std::function<void()> run; };
    LweParams *lp = new_LweParams(4, 1e-3, 0.25); LweKey *k = new_LweKey(lp); for (int i = 0; i < 4; i++) k->key[i] = i & 1; LweSample *c = new_LweSample(lp);
    TLweParams *tp = new_TLweParams(1024, 1, 1e-8, 0.25); TLweKey *tk = new_TLweKey(tp); TLweSample *tc = new_TLweSample(tp); TorusPolynomial *tpoly = new_TorusPolynomial(1024);
    std::vector<H> hs = {{"nothing", [] {}}, {"1-gaussian", [] { gaussian32(0, 0.1); }}, {"2-gaussians", [] { gaussian32(0, 0.1); gaussian32(0, 0.2); }}, {"3-gaussians", [] { for (int q = 0; q < 3; q++) gaussian32(0, 0.1); }},
        {"1-lwe-encrypt", [&] { lweSymEncrypt(c, 1, 1e-3, k); }}, {"2-lwe-encrypts", [&] { lweSymEncrypt(c, 1, 1e-3, k); lweSymEncrypt(c, 2, 1e-3, k); }}, {"lwe-keygen", [&] { lweKeyGen(k); }},
        {"tlwe-keygen+encrypt", [&] { tLweKeyGen(tk); tLweSymEncryptT(tc, 3, 1e-8, tk); }}, {"1-uniform", [] { uniformTorus32_distrib(generator); }}, {"uniform-poly", [&] { torusPolynomialUniform(tpoly); }},
        {"external-noise-encrypt", [&] { lweSymEncryptWithExternalNoise(c, 1, 0.001, 1e-3, k); }}};
    static const uint32_t SEEDS[][3] = {{42, 0, 0}, {1, 2, 3}, {0xFFFFFFFF, 7, 0}};
    for (int si = 0; si < 3; si++) { std::string reference;
        for (size_t a = 0; a < hs.size(); a++) for (size_t b = 0; b < hs.size(); b++) {
            std::string key = fmt("seeding/seed=%d/history=%s,%s", si, hs[a].name, hs[b].name);
            if (!take(key)) continue; if (deadline()) return; current(key);
            Fate f = forked([&] {
                tfhe_random_generator_setSeed((uint32_t *)SEEDS[si], 3); std::string ref = draw_bundle();     // what this seed gives in a process that did nothing before
                tfhe_random_generator_setSeed((uint32_t *)SEEDS[(si + 1) % 3], 2); hs[a].run(); hs[b].run();       // some history under another seed
                g_hits = 0; g_armed = 1; tfhe_random_generator_setSeed((uint32_t *)SEEDS[si], 3); std::string got = draw_bundle(); g_armed = 0;
                if (got != ref) { size_t d = 0; while (d < got.size() && got[d] == ref[d]) d++; violation(key, fmt("re-seeding with the same seed after this history does not reproduce the same keys/ciphertexts (first differing byte %zu of %zu)", d, ref.size())); }
                if (g_hits) violation(key, fmt("keygen/encryption reached %s()", g_what));
                tfhe_random_generator_setSeed((uint32_t *)SEEDS[(si + 1) % 3], 3); if (draw_bundle() == ref) violation(key, "a different seed gives the same keys and ciphertexts");
                eval(1); nontrivial(1); outcome(mix(fnv(ref.data(), 32), a * 16 + b)); }, 60);
            if (f.died()) violation(key, "process died: " + fate_str(f));
        } }
    { std::string key = "seeding/distinct-states"; if (take(key) && !deadline()) { current(key); std::set<std::string> states; int cnt = 0;
        for (uint32_t len = 1; len <= 3; len++) for (uint32_t v = 0; v < 22 && cnt < 64; v++, cnt++) { uint32_t sd[3] = {v * 2654435761u + len, v + 1, len * 77 + v}; tfhe_random_generator_setSeed(sd, (int32_t)len); std::stringstream ss; ss << generator; states.insert(ss.str()); }
        if ((int)states.size() < cnt - 1) violation(key, fmt("%d seeds give only %zu distinct generator states", cnt, states.size())); eval(cnt); nontrivial(cnt); outcome(states.size()); } }
    sample("seeding/seed=0/history=1-gaussian,tlwe-keygen+encrypt: seed S -> bundle B; seed S' ; one gaussian draw; TLWE keygen+encrypt; seed S again -> bundle must equal B byte for byte");
}

int main(int argc, char **argv) {
    init(argc, argv);
    std::string part = opt("part", "all");
    if (part == "states") part_states(); else if (part == "objects") { part_keybalance(); part_objects(); } else if (part == "seeding") part_seeding(); else { part_seeding(); part_objects(); part_states(); }
    return finish();
}
