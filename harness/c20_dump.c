/* C20 behavioural cross-check: the same source is compiled as C99 and as C++11 and linked against every library variant.
   It creates parameter/key/sample objects through the public API and dumps every field it can see. All dumps must be identical. */
#include <stdio.h>
#include <stdlib.h>
#include <stdint.h>
#include <inttypes.h>
#include "tfhe.h"
#include "tfhe_io.h"
#include "polynomials_arithmetic.h"
#include "lagrangehalfc_arithmetic.h"

static void dump_lweparams(const char *tag, const LweParams *p) { printf("%s n=%d amin=%.17g amax=%.17g\n", tag, p->n, p->alpha_min, p->alpha_max); }
int main(void) {
    uint32_t seed[2] = {42, 4242};
    tfhe_random_generator_setSeed(seed, 2);
    LweParams *lp = new_LweParams(5, 0.001, 0.25);
    dump_lweparams("LweParams", lp);
    LweKey *lk = new_LweKey(lp); lweKeyGen(lk);
    printf("LweKey params_n=%d key=", lk->params->n); for (int i = 0; i < 5; i++) printf("%d", lk->key[i]); printf("\n");
    LweSample *ls = new_LweSample(lp); lweSymEncrypt(ls, (Torus32)0x20000000, 0.001, lk);
    printf("LweSample b=%" PRId32 " var=%.17g a=", ls->b, ls->current_variance); for (int i = 0; i < 5; i++) printf("%" PRId32 ",", ls->a[i]); printf(" phase=%" PRId32 "\n", lwePhase(ls, lk));
    TLweParams *tp = new_TLweParams(1024, 2, 1e-9, 0.25);
    printf("TLweParams N=%d k=%d amin=%.17g amax=%.17g\n", tp->N, tp->k, tp->alpha_min, tp->alpha_max); dump_lweparams("TLweParams.extracted", &tp->extracted_lweparams);
    TGswParams *gp = new_TGswParams(3, 7, tp);
    printf("TGswParams l=%d Bgbit=%d Bg=%d halfBg=%d maskMod=%u kpl=%d offset=%u h=", gp->l, gp->Bgbit, gp->Bg, gp->halfBg, gp->maskMod, gp->kpl, gp->offset); for (int i = 0; i < 3; i++) printf("%" PRId32 ",", gp->h[i]); printf(" tlwe_N=%d\n", gp->tlwe_params->N);
    TGswKey *gk = new_TGswKey(gp); tGswKeyGen(gk);
    { long w = 0; for (int i = 0; i < 2; i++) for (int j = 0; j < 1024; j++) w += gk->key[i].coefs[j] * (j + 1 + 1024 * i); printf("TGswKey weighted=%ld N=%d same_key_ptr=%d tlwe_params_N=%d\n", w, gk->key[0].N, gk->key == gk->tlwe_key.key, gk->tlwe_params->N); }
    TLweSample *ts = new_TLweSample(tp); tLweClear(ts, tp); tLweAddTTo(ts, 2, 77, tp); printf("TLweSample k=%d b0=%" PRId32 " b_is_ak=%d var=%.17g N=%d\n", ts->k, ts->b->coefsT[0], ts->b == ts->a + 2, ts->current_variance, ts->a[0].N);
    TGswSample *gs = new_TGswSample(gp); printf("TGswSample k=%d l=%d bloc1_off=%ld\n", gs->k, gs->l, (long)(gs->bloc_sample[1] - gs->all_sample));
    LweKeySwitchKey *ks = new_LweKeySwitchKey(5, 3, 2, lp); printf("LweKeySwitchKey n=%d t=%d basebit=%d base=%d out_n=%d row_off=%ld\n", ks->n, ks->t, ks->basebit, ks->base, ks->out_params->n, (long)(ks->ks[1][2] - ks->ks0_raw));
    for (int lam = 80; lam <= 128; lam += 48) { TFheGateBootstrappingParameterSet *ps = new_default_gate_bootstrapping_parameters(lam);
        printf("ParameterSet(%d) t=%d basebit=%d n=%d N=%d l=%d Bgbit=%d ks_sd=%.17g bk_sd=%.17g\n", lam, ps->ks_t, ps->ks_basebit, ps->in_out_params->n, ps->tgsw_params->tlwe_params->N, ps->tgsw_params->l, ps->tgsw_params->Bgbit, ps->in_out_params->alpha_min, ps->tgsw_params->tlwe_params->alpha_min);
        delete_gate_bootstrapping_parameters(ps); }
    /* FFT-domain objects used from C: an array with count > 1 (every element is the destination of an operation) and an object in caller-provided
       storage between guard words.  Values differ by a unit between back-ends, so verdicts (within 2 units) are printed, not raw coefficients. */
    { const int N = 1024; int i, e; IntPolynomial *ia = new_IntPolynomial(N); TorusPolynomial *tb = new_TorusPolynomial(N), *tr = new_TorusPolynomial(N);
      LagrangeHalfCPolynomial *arr = new_LagrangeHalfCPolynomial_array(3, N);
      for (i = 0; i < N; i++) { ia->coefs[i] = (i % 7) - 3; tb->coefsT[i] = (Torus32)(i * 2654435761u); }
      for (e = 0; e < 3; e++) { int okc = 1, oka = 1, okm = 1; LagrangeHalfCPolynomial *x = arr + e, *y = arr + (e + 1) % 3, *z = arr + (e + 2) % 3;
          LagrangeHalfCPolynomialSetTorusConstant(x, (Torus32)0x20000000); TorusPolynomial_fft(tr, x);
          for (i = 0; i < N; i++) { int64_t d = (int64_t)tr->coefsT[i] - (i == 0 ? 0x20000000 : 0); if (d > 2 || d < -2) okc = 0; }
          TorusPolynomial_ifft(y, tb); LagrangeHalfCPolynomialAddTo(x, y); TorusPolynomial_fft(tr, x);
          for (i = 0; i < N; i++) { int32_t w = (int32_t)((uint32_t)tb->coefsT[i] + (i == 0 ? 0x20000000u : 0u)); int64_t d = (int64_t)(int32_t)((uint32_t)tr->coefsT[i] - (uint32_t)w); if (d > 3 || d < -3) oka = 0; }
          IntPolynomial_ifft(z, ia); LagrangeHalfCPolynomialMul(x, z, y); TorusPolynomial_fft(tr, x);
          { TorusPolynomial *ex = new_TorusPolynomial(N); torusPolynomialMultKaratsuba(ex, ia, tb); for (i = 0; i < N; i++) { int64_t d = (int64_t)(int32_t)((uint32_t)tr->coefsT[i] - (uint32_t)ex->coefsT[i]); if (d > 2 || d < -2) okm = 0; } delete_TorusPolynomial(ex); }
          { int oki = 1; TorusPolynomial *ex = new_TorusPolynomial(N); torusPolynomialMultKaratsuba(ex, ia, tb); TorusPolynomial_ifft(y, tb); IntPolynomial_ifft(z, ia); LagrangeHalfCPolynomialMul(y, z, y); TorusPolynomial_fft(tr, y);
            for (i = 0; i < N; i++) { int64_t d = (int64_t)(int32_t)((uint32_t)tr->coefsT[i] - (uint32_t)ex->coefsT[i]); if (d > 2 || d < -2) oki = 0; }
            TorusPolynomial_ifft(y, tb); LagrangeHalfCPolynomialAddMul(y, z, y); TorusPolynomial_fft(tr, y);
            for (i = 0; i < N; i++) { int64_t d = (int64_t)(int32_t)((uint32_t)tr->coefsT[i] - (uint32_t)ex->coefsT[i] - (uint32_t)tb->coefsT[i]); if (d > 3 || d < -3) oki = 0; } delete_TorusPolynomial(ex);
            printf("LagrangeArray elem=%d const_ok=%d addto_ok=%d mul_ok=%d inplace_ok=%d\n", e, okc, oka, okm, oki); } }
      delete_LagrangeHalfCPolynomial_array(3, arr);
      { struct { uint64_t g0[2]; LagrangeHalfCPolynomial obj; uint64_t g1[2]; } box; int ok = 1; box.g0[0] = box.g0[1] = box.g1[0] = box.g1[1] = 0x5AA5C3C3A55A3C3CULL;
        init_LagrangeHalfCPolynomial(&box.obj, N); TorusPolynomial_ifft(&box.obj, tb); TorusPolynomial_fft(tr, &box.obj);
        for (i = 0; i < N; i++) { int64_t d = (int64_t)(int32_t)((uint32_t)tr->coefsT[i] - (uint32_t)tb->coefsT[i]); if (d > 1 || d < -1) ok = 0; }
        destroy_LagrangeHalfCPolynomial(&box.obj);
        printf("LagrangeEmbedded sizeof=%d roundtrip_ok=%d guards_intact=%d\n", (int)sizeof(LagrangeHalfCPolynomial), ok, box.g0[0] == 0x5AA5C3C3A55A3C3CULL && box.g0[1] == 0x5AA5C3C3A55A3C3CULL && box.g1[0] == 0x5AA5C3C3A55A3C3CULL && box.g1[1] == 0x5AA5C3C3A55A3C3CULL); }
      /* calling convention: the Lagrange-domain routines are hand-written assembly in two back-ends; a C caller keeps live values in the callee-saved
         registers across the call.  (Explicit register variables pin the values; the empty asm statements make the compiler read them back.) */
#if defined(__x86_64__) && defined(__GNUC__)
      { LagrangeHalfCPolynomial *q = new_LagrangeHalfCPolynomial_array(3, N); int f; IntPolynomial_ifft(q, ia); TorusPolynomial_ifft(q + 1, tb); LagrangeHalfCPolynomialClear(q + 2);
        for (f = 0; f < 6; f++) { int ok;
            register uint64_t v12 __asm__("r12") = 0x1212121212121212ULL; register uint64_t v13 __asm__("r13") = 0x1313131313131313ULL; register uint64_t v14 __asm__("r14") = 0x1414141414141414ULL; register uint64_t v15 __asm__("r15") = 0x1515151515151515ULL; register uint64_t vbx __asm__("rbx") = 0x0b0b0b0b0b0b0b0bULL;
            __asm__ volatile("" : "+r"(v12), "+r"(v13), "+r"(v14), "+r"(v15), "+r"(vbx));
            switch (f) { case 0: LagrangeHalfCPolynomialMul(q + 2, q, q + 1); break; case 1: LagrangeHalfCPolynomialAddMul(q + 2, q, q + 1); break; case 2: LagrangeHalfCPolynomialSubMul(q + 2, q, q + 1); break;
                         case 3: LagrangeHalfCPolynomialAddTo(q + 2, q + 1); break; case 4: TorusPolynomial_ifft(q + 2, tb); break; default: TorusPolynomial_fft(tr, q + 2); }
            __asm__ volatile("" : "+r"(v12), "+r"(v13), "+r"(v14), "+r"(v15), "+r"(vbx));
            ok = v12 == 0x1212121212121212ULL && v13 == 0x1313131313131313ULL && v14 == 0x1414141414141414ULL && v15 == 0x1515151515151515ULL && vbx == 0x0b0b0b0b0b0b0b0bULL;
            printf("CalleeSaved fn=%d preserved=%d\n", f, ok); }
        delete_LagrangeHalfCPolynomial_array(3, q); }
#endif
      /* polynomials that are views into caller-owned storage with only 4-byte alignment (the public structs are plain {N, pointer}) */
      { int off; for (off = 1; off <= 3; off++) { int32_t *raw = (int32_t *)malloc((2 * N + 8) * sizeof(int32_t)); int ok = 1; IntPolynomial *iv = new_IntPolynomial(N); TorusPolynomial *tv = new_TorusPolynomial(N), *ex = new_TorusPolynomial(N), *r2 = new_TorusPolynomial(N);
          int32_t *keep_i = iv->coefs; Torus32 *keep_t = tv->coefsT; LagrangeHalfCPolynomial *w = new_LagrangeHalfCPolynomial_array(3, N);
          iv->coefs = raw + off; tv->coefsT = raw + N + 4 + off; for (i = 0; i < N; i++) { iv->coefs[i] = ia->coefs[i]; tv->coefsT[i] = tb->coefsT[i]; }
          torusPolynomialMultKaratsuba(ex, ia, tb); IntPolynomial_ifft(w, iv); TorusPolynomial_ifft(w + 1, tv); LagrangeHalfCPolynomialMul(w + 2, w, w + 1); TorusPolynomial_fft(r2, w + 2);
          for (i = 0; i < N; i++) { int64_t d = (int64_t)(int32_t)((uint32_t)r2->coefsT[i] - (uint32_t)ex->coefsT[i]); if (d > 2 || d < -2) ok = 0; }
          torusPolynomialMultFFT(r2, iv, tv); for (i = 0; i < N; i++) { int64_t d = (int64_t)(int32_t)((uint32_t)r2->coefsT[i] - (uint32_t)ex->coefsT[i]); if (d > 2 || d < -2) ok = 0; }
          printf("UnalignedViews offset_bytes=%d ok=%d\n", 4 * off, ok);
          iv->coefs = keep_i; tv->coefsT = keep_t; delete_LagrangeHalfCPolynomial_array(3, w); delete_IntPolynomial(iv); delete_TorusPolynomial(tv); delete_TorusPolynomial(ex); delete_TorusPolynomial(r2); free(raw); } }
      delete_IntPolynomial(ia); delete_TorusPolynomial(tb); delete_TorusPolynomial(tr); }
    IntPolynomial *ip = new_IntPolynomial(8); TorusPolynomial *tq = new_TorusPolynomial(8); printf("Polynomials N=%d N=%d\n", ip->N, tq->N);
    delete_IntPolynomial(ip); delete_TorusPolynomial(tq); delete_LweKeySwitchKey(ks); delete_TGswSample(gs); delete_TLweSample(ts); delete_TGswKey(gk); delete_TGswParams(gp); delete_TLweParams(tp); delete_LweSample(ls); delete_LweKey(lk); delete_LweParams(lp);
    return 0;
}
