/* C20 behavioural cross-check: the same source is compiled as C99 and as C++11 and linked against every library variant.
   It creates parameter/key/sample objects through the public API and dumps every field it can see. All dumps must be identical. */
#include <stdio.h>
#include <stdint.h>
#include <inttypes.h>
#include "tfhe.h"
#include "tfhe_io.h"

static void dump_lweparams(const char *tag, const LweParams *p) { printf("%s n=%d amin=%.17g amax=%.17g\n", tag, p->n, p->alpha_min, p->alpha_max); }
int main(void) {
    uint32_t seed[2] = {42, 4242};
    tfhe_random_generator_setSeed(seed, 2);
    LweParams *lp = new_LweParams(5, 0.001, 0.25);
    dump_lweparams("LweParams", lp);
    LweKey *lk = new_LweKey(lp); lweKeyGen(lk);
    printf("LweKey params_n=%d key=", lk->params->n); for (int i = 0; i < 5; i++) printf("%d", lk->key[i]); printf("\n");
    LweSample *ls = new_LweSample(lp); lweSymEncrypt(ls, (Torus32)0x20000000, 0.001, lk);
    printf("LweSample b=%" PRId32 " var=%.17g a=", ls->b, ls->current_variance); for (int i = 0; i < 5; i++) printf("%" PRId32 ",", ls->a[i]); printf(" phase=%" PRId32 "\n", lwePhase(ls, lk));
    TLweParams *tp = new_TLweParams(1024, 2, 1e-9, 0.25);
    printf("TLweParams N=%d k=%d amin=%.17g amax=%.17g\n", tp->N, tp->k, tp->alpha_min, tp->alpha_max); dump_lweparams("TLweParams.extracted", &tp->extracted_lweparams);
    TGswParams *gp = new_TGswParams(3, 7, tp);
    printf("TGswParams l=%d Bgbit=%d Bg=%d halfBg=%d maskMod=%u kpl=%d offset=%u h=", gp->l, gp->Bgbit, gp->Bg, gp->halfBg, gp->maskMod, gp->kpl, gp->offset); for (int i = 0; i < 3; i++) printf("%" PRId32 ",", gp->h[i]); printf(" tlwe_N=%d\n", gp->tlwe_params->N);
    TGswKey *gk = new_TGswKey(gp); tGswKeyGen(gk);
    { long w = 0; for (int i = 0; i < 2; i++) for (int j = 0; j < 1024; j++) w += gk->key[i].coefs[j] * (j + 1 + 1024 * i); printf("TGswKey weighted=%ld N=%d same_key_ptr=%d tlwe_params_N=%d\n", w, gk->key[0].N, gk->key == gk->tlwe_key.key, gk->tlwe_params->N); }
    TLweSample *ts = new_TLweSample(tp); tLweClear(ts, tp); tLweAddTTo(ts, 2, 77, tp); printf("TLweSample k=%d b0=%" PRId32 " b_is_ak=%d var=%.17g N=%d\n", ts->k, ts->b->coefsT[0], ts->b == ts->a + 2, ts->current_variance, ts->a[0].N);
    TGswSample *gs = new_TGswSample(gp); printf("TGswSample k=%d l=%d bloc1_off=%ld\n", gs->k, gs->l, (long)(gs->bloc_sample[1] - gs->all_sample));
    LweKeySwitchKey *ks = new_LweKeySwitchKey(5, 3, 2, lp); printf("LweKeySwitchKey n=%d t=%d basebit=%d base=%d out_n=%d row_off=%ld\n", ks->n, ks->t, ks->basebit, ks->base, ks->out_params->n, (long)(ks->ks[1][2] - ks->ks0_raw));
    for (int lam = 80; lam <= 128; lam += 48) { TFheGateBootstrappingParameterSet *ps = new_default_gate_bootstrapping_parameters(lam);
        printf("ParameterSet(%d) t=%d basebit=%d n=%d N=%d l=%d Bgbit=%d ks_sd=%.17g bk_sd=%.17g\n", lam, ps->ks_t, ps->ks_basebit, ps->in_out_params->n, ps->tgsw_params->tlwe_params->N, ps->tgsw_params->l, ps->tgsw_params->Bgbit, ps->in_out_params->alpha_min, ps->tgsw_params->tlwe_params->alpha_min);
        delete_gate_bootstrapping_parameters(ps); }
    IntPolynomial *ip = new_IntPolynomial(8); TorusPolynomial *tq = new_TorusPolynomial(8); printf("Polynomials N=%d N=%d\n", ip->N, tq->N);
    delete_IntPolynomial(ip); delete_TorusPolynomial(tq); delete_LweKeySwitchKey(ks); delete_TGswSample(gs); delete_TLweSample(ts); delete_TGswKey(gk); delete_TGswParams(gp); delete_TLweParams(tp); delete_LweSample(ls); delete_LweKey(lk); delete_LweParams(lp);
    return 0;
}
