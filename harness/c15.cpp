// C15 — evaluation leaves inputs and keys untouched, accepts aliased outputs, and does not use the random generator.
#include "vf.hpp"
#include "ref.hpp"
#include "gates.hpp"
#include "exactkey.hpp"
#include <numeric_functions.h>
#include <lwe-functions.h>
#include <tlwe_functions.h>
#include <tgsw_functions.h>
#include <sstream>
using namespace vf;
using namespace gates;
static const int N = 1024;

// "never written", not only "unchanged afterwards": with the guard allocator linked in, the key objects (every heap block allocated while the key
// set was built) and the input objects are write-protected for the duration of the call; a transient write-and-restore of a shared key or input
// (invisible to any snapshot, a data race for a second thread) faults.  Exempt: the gadget decomposition, which by design adds and removes its
// offset in place on its const input (tGswTorus32PolynomialDecompH and its two callers that decompose a caller-owned sample).
extern "C" { int vf_protect(const void *, int) __attribute__((weak)); int vf_protect_epoch(long, long, int) __attribute__((weak)); long vf_alloc_seq() __attribute__((weak)); int vf_guard_mode() __attribute__((weak)); }
static bool freezing() { return vf_protect_epoch && vf_guard_mode && vf_guard_mode() > 0 && opt("freeze", "1") == "1"; }
struct Epoch { long from = 0, to = 0; };
struct Freeze { Epoch e; std::vector<const void *> blocks; bool on;
    Freeze(const Epoch &ep, std::vector<const void *> b) : e(ep), blocks(std::move(b)), on(freezing()) { if (!on) return; int ke = vf_protect_epoch(e.from, e.to, 1); int miss = 0; for (auto p : blocks) if (p && !vf_protect(p, 1)) miss++; stat_sum("frozen_calls", 1); stat_sum("frozen_key_blocks", ke); stat_sum("freeze_missed_input_blocks", miss); }
    ~Freeze() { if (!on) return; vf_protect_epoch(e.from, e.to, 0); for (auto p : blocks) if (p) vf_protect(p, 0); } };
// with the guard allocator every key-switching row is a mapping of its own: a (t,basebit) = (3,1) key keeps the whole key set within the guarded-block budget
static int KT() { return freezing() ? 3 : 8; }
static int KB() { return freezing() ? 1 : 2; }
static long seq_now() { return vf_alloc_seq ? vf_alloc_seq() : 0; }
static void warm_fft() { IntPolynomial *a = new_IntPolynomial(N); TorusPolynomial *b = new_TorusPolynomial(N), *r = new_TorusPolynomial(N); for (int i = 0; i < N; i++) { a->coefs[i] = 1; b->coefsT[i] = i; } torusPolynomialMultFFT(r, a, b); delete_IntPolynomial(a); delete_TorusPolynomial(b); delete_TorusPolynomial(r); }
struct Env { Epoch ep; const char *name; const LweParams *lp; const CK *ck; const LweKey *s; std::function<uint64_t()> keyhash; int n; };
static std::string genstate() { std::stringstream ss; ss << generator; return ss.str(); }
static void fresh(const Env &E, LweSample *c, int bit, uint64_t &x) { // deterministic fresh-looking ciphertext: seeded mask, small seeded error
    uint32_t b = (uint32_t)(bit ? MU8 : -MU8) + (uint32_t)((int32_t)(splitmix(x) % 200001) - 100000);
    for (int i = 0; i < E.n; i++) { c->a[i] = (Torus32)splitmix(x); b += (uint32_t)c->a[i] * (uint32_t)E.s->key[i]; } c->b = (Torus32)b; c->current_variance = 1e-9; }
static std::string bytes(const LweSample *c, int n) { std::string s((const char *)c->a, n * 4); s.append((const char *)&c->b, 4); return s; }

static void gate_cases(const Env &E, bool all_rows) {
    LweSample *x[3], *cp[3], *r, *rref; for (int q = 0; q < 3; q++) { x[q] = new_LweSample(E.lp); cp[q] = new_LweSample(E.lp); } r = new_LweSample(E.lp); rref = new_LweSample(E.lp);
    uint64_t kh = 0; bool have_kh = false;
    for (const Gate &g : table()) {
        // aliasing patterns: each wire slot is one of the objects {R(result), A, B, C}; slot s uses object pat[s]; 'R' means the result object
        std::vector<std::string> pats;
        if (g.arity == 0) pats = {""}; else if (g.arity == 1) pats = {"A", "R"}; else if (g.arity == 2) pats = {"AB", "RB", "AR", "AA", "RR"}; else pats = {"ABC", "RBC", "ARC", "ABR", "AAC", "ABB", "ABA", "AAA", "RRC", "ARR", "RBR", "RRR"};
        int rows = g.arity == 0 ? 2 : 1 << g.arity;
        for (int row = 0; row < rows; row++) for (auto &pat : pats) {
            if (!all_rows && !(row == 0 || row == rows - 1 || row == 5 % rows)) continue;
            std::string key = fmt("gate/%s/%s/row=%d/alias=%s", E.name, g.name, row, pat.empty() ? "-" : pat.c_str());
            if (!take(key)) continue; if (deadline()) return; current(key);
            if (!have_kh) { kh = E.keyhash(); have_kh = true; }
            int bits[3] = {row & 1, (row >> 1) & 1, (row >> 2) & 1}; uint64_t sx = fnv(key.data(), key.size() - pat.size());
            for (int q = 0; q < g.arity; q++) fresh(E, x[q], bits[q], sx);
            // for gates whose combination has unit coefficients, one mask coefficient of the internal combination is placed exactly on a rounding boundary of the
            // modulus switch (phase of the input unchanged: a_j += d, b += d*s_j): whatever the tie rule is, evaluation must not consult the random generator
            if (g.arity >= 2) { int ka = g.arity == 2 ? g.ka : 1, kb = g.arity == 2 ? g.kb : 1; if (ka == 1 || ka == -1) { int j = (row * 3 + (int)pat.size()) % E.n; uint32_t cur = (uint32_t)ka * (uint32_t)x[0]->a[j] + (uint32_t)kb * (uint32_t)x[1]->a[j]; uint32_t target = (cur & 0xFFE00000u) | 0x00100000u; uint32_t d = (uint32_t)ka * (target - cur); x[0]->a[j] += (Torus32)d; x[0]->b += (Torus32)(d * (uint32_t)E.s->key[j]); } }
            // a slot that shares an object with an earlier slot carries that object's content; plaintext bits follow
            int eff[3]; for (int q = 0; q < g.arity; q++) { eff[q] = q; for (int p = 0; p < q; p++) if (pat[p] == pat[q]) { eff[q] = eff[p]; break; } }
            // reference: all-distinct objects with the same contents
            for (int q = 0; q < g.arity; q++) lweCopy(cp[q], x[eff[q]], E.lp);
            std::string gen0 = genstate();
            apply(g, rref, cp[0], cp[1], cp[2], bits[0], E.ck);
            std::string want = bytes(rref, E.n);
            // aliased call
            const LweSample *arg[3]; LweSample *obj[3] = {x[0], x[1], x[2]};
            for (int q = 0; q < g.arity; q++) { if (pat[q] == 'R') arg[q] = r; else arg[q] = obj[eff[q]]; }
            bool rused = false; for (int q = 0; q < g.arity; q++) if (pat[q] == 'R') { if (!rused) lweCopy(r, x[eff[q]], E.lp); rused = true; }
            if (!rused) { for (int i = 0; i < E.n; i++) r->a[i] = 0x5a5a5a5a; r->b = 0x5a5a5a5a; r->current_variance = 0.125; }   // stale content of a re-used output object
            std::string before[3]; for (int q = 0; q < g.arity; q++) before[q] = bytes(arg[q], E.n);
            { std::vector<const void *> fr; for (int q = 0; q < g.arity; q++) if (pat[q] != 'R') { fr.push_back(arg[q]); fr.push_back(arg[q]->a); }
              Freeze fz(E.ep, fr); apply(g, r, g.arity > 0 ? arg[0] : nullptr, g.arity > 1 ? arg[1] : nullptr, g.arity > 2 ? arg[2] : nullptr, bits[0], E.ck); }
            if (bytes(r, E.n) == want && memcmp(&r->current_variance, &rref->current_variance, 8)) violation(key, fmt("%s with aliasing pattern %s: same (a, b) but the variance annotation of the result object is %.17g, with distinct objects %.17g (stale content of a re-used result object)", g.name, pat.c_str(), r->current_variance, rref->current_variance));
            if (bytes(r, E.n) != want) violation(key, fmt("%s with aliasing pattern %s gives a different ciphertext than the call with distinct objects (decrypts to %d, plaintext %d)", g.name, pat.c_str(), lwePhase(r, E.s) > 0, g.truth(bits[eff[0]], g.arity > 1 ? bits[eff[1]] : 0, g.arity > 2 ? bits[eff[2]] : 0)));
            for (int q = 0; q < g.arity; q++) if (pat[q] != 'R' && bytes(arg[q], E.n) != before[q]) violation(key, fmt("%s modified its input #%d", g.name, q + 1));
            if (genstate() != gen0) violation(key, fmt("%s advanced the library random generator", g.name));
            if (g.boots || row == 0) { if (E.keyhash() != kh) violation(key, fmt("%s modified the cloud key (parameters, key-switching rows, bootstrapping rows or FFT image)", g.name)); }
            eval(1); if (g.boots) nontrivial(1); outcome(mix(fnv(want.data(), 16), row));
        }
    }
}

// evaluation functions other than gates: every input snapshot equal before/after, generator untouched
static void function_cases(ek::Set *S, const Epoch &kep) {
    uint64_t kh = hash_bk(S->bk, S->bkFFT); std::string gen0 = genstate(); uint64_t sx = 4242;
    const LweParams *ep = &S->tp->extracted_lweparams; int kN = S->k * N;
    LweSample *x = new_LweSample(S->lp), *o = new_LweSample(S->lp), *oe = new_LweSample(ep), *xe = new_LweSample(ep);
    TorusPolynomial *v = new_TorusPolynomial(N); TLweSample *acc = new_TLweSample(S->tp), *acc2 = new_TLweSample(S->tp); IntPolynomial *dec = new_IntPolynomial_array(S->gp->kpl, N);
    std::vector<int32_t> bara(S->n);
    auto post = [&](const std::string &key, const char *fn) { if (hash_bk(S->bk, S->bkFFT) != kh) violation(key, std::string(fn) + " modified the bootstrapping/key-switching key or its parameters"); if (genstate() != gen0) violation(key, std::string(fn) + " advanced the library random generator"); eval(1); nontrivial(1); };
    for (int rep = 0; rep < 5; rep++) {   // rep 4: all-zero masks / polynomials (noiseless trivial samples)
        for (int i = 0; i < S->n; i++) { x->a[i] = rep == 4 ? 0 : rep == 0 ? INT32_MIN : rep == 1 ? INT32_MAX : (Torus32)splitmix(sx); bara[i] = (int)(splitmix(sx) % 2048); } x->b = (Torus32)splitmix(sx);
        for (int i = 0; i < kN; i++) xe->a[i] = rep == 4 ? 0 : rep == 0 ? INT32_MIN : (Torus32)splitmix(sx); xe->b = (Torus32)splitmix(sx);
        for (int j = 0; j < N; j++) v->coefsT[j] = rep == 4 ? 0 : rep == 0 ? INT32_MIN : rep == 1 ? INT32_MAX : (Torus32)splitmix(sx);
        for (int i = 0; i <= S->k; i++) for (int j = 0; j < N; j++) acc->a[i].coefsT[j] = (rep == 4 && i < S->k) ? 0 : rep == 0 ? INT32_MIN : rep == 1 ? INT32_MAX : (Torus32)splitmix(sx);
        std::string bx = bytes(x, S->n), bxe = bytes(xe, kN), bv((const char *)v->coefsT, N * 4); std::vector<int32_t> bara0 = bara; uint64_t hacc = hash_tlwe(acc, N, S->k, 1);
        struct F { const char *name; std::function<void()> call; };
        std::vector<F> fs = {
            {"tfhe_bootstrap_FFT", [&] { tfhe_bootstrap_FFT(o, S->bkFFT, MU8, x); }}, {"tfhe_bootstrap_woKS_FFT", [&] { tfhe_bootstrap_woKS_FFT(oe, S->bkFFT, MU8, x); }},
            {"tfhe_bootstrap", [&] { tfhe_bootstrap(o, S->bk, MU8, x); }}, {"tfhe_bootstrap_woKS", [&] { tfhe_bootstrap_woKS(oe, S->bk, MU8, x); }},
            {"tfhe_blindRotateAndExtract_FFT", [&] { tfhe_blindRotateAndExtract_FFT(oe, v, S->bkFFT->bkFFT, 5, bara.data(), S->n, S->gp); }}, {"tfhe_blindRotateAndExtract", [&] { tfhe_blindRotateAndExtract(oe, v, S->bk->bk, 5, bara.data(), S->n, S->gp); }},
            {"tfhe_blindRotate_FFT", [&] { tLweCopy(acc2, acc, S->tp); tfhe_blindRotate_FFT(acc2, S->bkFFT->bkFFT, bara.data(), S->n, S->gp); }}, {"tfhe_blindRotate", [&] { tLweCopy(acc2, acc, S->tp); tfhe_blindRotate(acc2, S->bk->bk, bara.data(), S->n, S->gp); }},
            {"lweKeySwitch", [&] { lweKeySwitch(o, S->bk->ks, xe); }}, {"lweKeySwitch(FFT key copy)", [&] { lweKeySwitch(o, S->bkFFT->ks, xe); }},
            {"tLweExtractLweSample", [&] { tLweExtractLweSample(oe, acc, ep, S->tp); }}, {"tLweExtractLweSampleIndex", [&] { tLweExtractLweSampleIndex(oe, acc, 517, ep, S->tp); }},
            {"tGswExternProduct", [&] { tGswExternProduct(acc2, &S->bk->bk[0], acc, S->gp); }}, {"tGswExternMulToTLwe", [&] { tLweCopy(acc2, acc, S->tp); tGswExternMulToTLwe(acc2, &S->bk->bk[0], S->gp); }},
            {"tGswFFTExternMulToTLwe", [&] { tLweCopy(acc2, acc, S->tp); tGswFFTExternMulToTLwe(acc2, &S->bkFFT->bkFFT[0], S->gp); }},
            {"tGswTorus32PolynomialDecompH", [&] { tGswTorus32PolynomialDecompH(dec, v, S->gp); }}, {"tGswTLweDecompH", [&] { tGswTLweDecompH(dec, acc, S->gp); }},
        };
        for (auto &f : fs) {
            std::string key = fmt("function/k=%d/l=%d/Bgbit=%d/%s/content=%d", S->k, S->l, S->Bgbit, f.name, rep);
            if (!want(key)) continue; current(key);
            { bool decomp_v = !strcmp(f.name, "tGswTorus32PolynomialDecompH"), decomp_acc = !strcmp(f.name, "tGswTLweDecompH") || !strcmp(f.name, "tGswExternProduct");
              std::vector<const void *> fr = {x, x->a, xe, xe->a, bara.data(), v, acc, acc->a}; if (!decomp_v) fr.push_back(v->coefsT); if (!decomp_acc) for (int i = 0; i <= S->k; i++) fr.push_back(acc->a[i].coefsT);
              Freeze fz(kep, fr); f.call(); }
            if (bytes(x, S->n) != bx) violation(key, std::string(f.name) + " modified its input LWE sample");
            if (bytes(xe, kN) != bxe) violation(key, std::string(f.name) + " modified its input (extracted-dimension) LWE sample");
            if (std::string((const char *)v->coefsT, N * 4) != bv) violation(key, std::string(f.name) + " modified the test polynomial / input polynomial");
            if (bara != bara0) violation(key, std::string(f.name) + " modified the exponent vector");
            if (hash_tlwe(acc, N, S->k, 1) != hacc) violation(key, std::string(f.name) + " modified its input TLWE sample");
            post(key, f.name); outcome(mix(fnv(f.name, strlen(f.name)), rep));
        }
    }
    current(fmt("function/k=%d/l=%d/Bgbit=%d/(end-of-group)", S->k, S->l, S->Bgbit));
}

int main(int argc, char **argv) {
    init(argc, argv);
    warm_fft();   // the per-thread FFT state exists before any key epoch starts (its scratch buffers are written by every transform)
    // tiny exact parameter sets (full product) — several decomposition layouts incl. l = 1 and exact gadgets
    struct Cf { int n, k, l, Bgbit; } cfs[] = {{8, 1, 2, 10}, {8, 2, 3, 7}, {8, 1, 1, 16}, {8, 1, 4, 8}, {8, 2, 1, 10}};
    for (auto c : cfs) {
        std::string prefix = fmt("function/k=%d/l=%d/Bgbit=%d/", c.k, c.l, c.Bgbit);
        if (take_group(prefix) && !deadline()) { Epoch ep; ep.from = seq_now(); ek::Set *S = ek::make(c.n, c.k, c.l, c.Bgbit, KT(), KB(), 71); ep.to = seq_now(); function_cases(S, ep); ek::destroy(S); }
    }
    {
        ek::Set *S = nullptr; Env E; TFheGateBootstrappingParameterSet *ps = nullptr; CK *ck = nullptr;
        Epoch ep8; ep8.from = seq_now(); S = ek::make(8, 1, 2, 10, KT(), KB(), 73); ps = new TFheGateBootstrappingParameterSet(KT(), KB(), S->lp, S->gp); ck = new CK(ps, S->bk, S->bkFFT); ep8.to = seq_now();
        E = {ep8, "tiny-n8", S->lp, ck, S->s, [=] { return hash_bk(S->bk, S->bkFFT); }, 8};
        gate_cases(E, true);
        ek::destroy(S);   // (also returns its guarded blocks to the budget of the next key set)
    }
    {   // an odd dimension: the tails of the vectorised loops run
        Epoch ep7; ep7.from = seq_now(); ek::Set *S = ek::make(7, 1, 3, 7, KT(), KB(), 75); TFheGateBootstrappingParameterSet *ps = new TFheGateBootstrappingParameterSet(KT(), KB(), S->lp, S->gp); CK *ck = new CK(ps, S->bk, S->bkFFT); ep7.to = seq_now();
        Env E = {ep7, "tiny-n7", S->lp, ck, S->s, [=] { return hash_bk(S->bk, S->bkFFT); }, 7};
        gate_cases(E, false);
        ek::destroy(S);
    }
    if (opt("default", quick() ? "128" : "both") != "none") for (int lam : {128, 80}) { if (lam == 80 && quick()) continue;
        uint32_t sd[2] = {(uint32_t)lam, 5}; tfhe_random_generator_setSeed(sd, 2);
        TFheGateBootstrappingParameterSet *ps = nullptr; SK *sk = nullptr; bool built = false; (void)built;
        // keys are only generated if this shard owns a case of the group
        Env E; std::string nm = fmt("default-%d", lam); char *nmc = strdup(nm.c_str());
        uint64_t save = S().case_counter; bool any = false; { for (const Gate &g : table()) { (void)g; } }
        (void)save; (void)any;
        Epoch epd; epd.from = seq_now(); ps = new_default_gate_bootstrapping_parameters(lam); sk = new_random_gate_bootstrapping_secret_keyset(ps); epd.to = seq_now();
        E = {epd, nmc, ps->in_out_params, &sk->cloud, sk->lwe_key, [=] { return hash_bk(sk->cloud.bk, sk->cloud.bkFFT); }, ps->in_out_params->n};
        gate_cases(E, false);
    }
    sample("gate/tiny-n8/MUX/row=5/alias=ARR: result object is also inputs b and c; ciphertext bytes must equal the call with distinct objects; inputs, whole cloud key (deep hash incl. FFT image) and generator unchanged");
    sample("function/k=2/l=3/Bgbit=7/tGswFFTExternMulToTLwe/content=2: TGSW key rows, FFT image, parameters, generator state hashed before/after");
    return finish();
}
