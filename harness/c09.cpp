// C09 — external product multiplies messages; blind rotation rotates the accumulator phase by X^(sum bara_i s_i); FFT key == coefficient key.
// TGSW samples and bootstrapping keys are built by the harness with exact arithmetic and *known* row errors, so the identity
//   phase(result) = m * phase(c) + sum_p dec_p * e_p  -  m * (gadget truncation)   (+ FFT rounding)
// is checked coefficient by coefficient against the analytic bound; with exact gadgets and noiseless rows it is an equality up to FFT rounding.
#include "vf.hpp"
#include "ref.hpp"
#include "exactkey.hpp"
#include <tgsw_functions.h>
#include <tlwe_functions.h>
using namespace vf;
static const int N = 1024, N2 = 2048;

struct Cf { int k, l, Bgbit; };
static const Cf CFS[] = {{2, 2, 10}, {1, 2, 10}, {1, 3, 7}, {2, 4, 8}, {1, 4, 8}, {1, 8, 4}, {2, 3, 7}, {1, 2, 16}, {1, 1, 8}, {1, 32, 1}, {1, 16, 2}, {1, 2, 15}, {3, 2, 10}, {1, 20, 1}};

static void msg_poly(int32_t *m, int kind, int j) { memset(m, 0, N * 4); uint64_t x = 5 + kind;
    switch (kind) { case 0: break; case 1: m[0] = 1; break; case 2: m[0] = -1; break; case 3: m[j] = 1; break; case 4: m[0] = 1; m[1] = 1; break; case 5: m[N - 1] = -1; break; default: for (int i = 0; i < N; i++) { uint64_t r = splitmix(x) % 16; m[i] = r == 0 ? 1 : r == 1 ? -1 : r == 2 ? 2 : 0; } } }
static const char *MK[] = {"0", "1", "-1", "X^j", "1+X", "-X^(N-1)", "small-norm"};
static void tlwe_content(TLweSample *c, int k, int kind, uint64_t seed) { uint64_t x = seed * 77 + kind;
    for (int i = 0; i <= k; i++) for (int j = 0; j < N; j++) c->a[i].coefsT[j] = kind == 0 ? ((i == k && j == 0) ? 0x20000000 : 0) : kind == 1 ? ((i == k && j == 1) ? 0x20000000 : 0) : kind == 2 ? ((i == k && j == N - 1) ? 0x20000000 : 0) : kind == 3 ? INT32_MAX : kind == 4 ? ((j & 1) ? INT32_MIN : INT32_MAX) : kind == 6 ? (i == k ? (Torus32)((int32_t)(splitmix(x) % 4001) - 2000) : 0) : kind == 7 ? (i < k ? (Torus32)((int32_t)(splitmix(x) % 1001) - 500) : (Torus32)splitmix(x)) : (Torus32)splitmix(x); }
static const char *CK[] = {"trivial-spike0", "trivial-spike1", "trivial-spikeN-1", "allMAX", "altMINMAX", "seeded", "trivial-small-message", "small-mask"}; // the last two: every coefficient of a component far below 1/(2Bg): all leading digits are zero

struct Ctx { int k, l, Bgbit; TLweParams *tp; TGswParams *gp; TGswKey *key; TGswSample *g; TGswSampleFFT *gf; std::vector<std::vector<Torus32>> err; IntPolynomial *dec; TLweSample *c, *r; };

// sum_p dec_p * e_p  (exact), and l1 norm of m
static void noise_term(std::vector<uint32_t> &out, Ctx &X) { out.assign(N, 0); std::vector<Torus32> t(N); for (int p = 0; p < X.gp->kpl; p++) { bool z = true; for (int j = 0; j < N; j++) if (X.err[p][j]) { z = false; break; } if (z) continue; ref::negacyclic_mul_fast(t.data(), X.dec[p].coefs, X.err[p].data(), N); for (int j = 0; j < N; j++) out[j] += (uint32_t)t[j]; } }

// the sibling constructors of an FFT-domain TGSW sample: tGswFFTClear + tGswFFTAddH must be the (noiseless, keyless) TGSW sample of 1 -
// the external product with it is the identity up to the gadget truncation, and it agrees with the converted coefficient-domain sample of 1
static void fft_addh_cases() {
    for (auto cf : CFS) {
        std::string key = fmt("fft-addh/k=%d/l=%d/Bgbit=%d", cf.k, cf.l, cf.Bgbit);
        if (!take(key)) continue; if (deadline()) return; current(key);
        TLweParams *tp = new_TLweParams(N, cf.k, 0, 0.25); TGswParams *gp = new_TGswParams(cf.l, cf.Bgbit, tp);
        TGswSampleFFT *one = new_TGswSampleFFT(gp), *conv = new_TGswSampleFFT(gp); TGswSample *g = new_TGswSample(gp); TLweSample *acc = new_TLweSample(tp), *a1 = new_TLweSample(tp), *a2 = new_TLweSample(tp);
        tGswFFTClear(one, gp); tGswFFTAddH(one, gp); tGswClear(g, gp); tGswAddH(g, gp); tGswToFFTConvert(conv, g, gp);
        uint64_t x = cf.k * 100 + cf.l; int rem = 32 - cf.l * cf.Bgbit; int64_t tol = (rem > 0 ? ((int64_t)1 << rem) : 0) + 2 * std::max<int64_t>(1, ((int64_t)1 << (cf.Bgbit - 1)) / 512) * cf.l * (cf.k + 1) + 2; bool ok = true;
        for (int rep = 0; rep < 3 && ok; rep++) { for (int i = 0; i <= cf.k; i++) for (int j = 0; j < N; j++) acc->a[i].coefsT[j] = rep == 0 ? (Torus32)(j * 2654435761u + i) : rep == 1 ? ((j & 1) ? INT32_MIN : INT32_MAX) : (Torus32)splitmix(x);
            tLweCopy(a1, acc, tp); tLweCopy(a2, acc, tp); tGswFFTExternMulToTLwe(a1, one, gp); tGswFFTExternMulToTLwe(a2, conv, gp);
            for (int i = 0; i <= cf.k && ok; i++) for (int j = 0; j < N; j++) { int64_t d1 = ref::sdiff(a1->a[i].coefsT[j], acc->a[i].coefsT[j]), d2 = ref::sdiff(a1->a[i].coefsT[j], a2->a[i].coefsT[j]); if (d1 < 0) d1 = -d1; if (d2 < 0) d2 = -d2;
                if (d1 > tol || d2 > 4) { violation(key, fmt("external product with tGswFFTClear+tGswFFTAddH (the sample of 1): polynomial %d coefficient %d differs from the accumulator by %lld units (allowed %lld) and from the product with the converted sample of 1 by %lld (k=%d l=%d Bgbit=%d)", i, j, (long long)d1, (long long)tol, (long long)d2, cf.k, cf.l, cf.Bgbit)); ok = false; break; } }
            eval(2); }
        nontrivial(1); outcome(mix(cf.l * 100 + cf.Bgbit, cf.k + 50));
        delete_TLweSample(acc); delete_TLweSample(a1); delete_TLweSample(a2); delete_TGswSample(g); delete_TGswSampleFFT(one); delete_TGswSampleFFT(conv); delete_TGswParams(gp); delete_TLweParams(tp);
    }
    sample("fft-addh/k=1/l=3/Bgbit=7: tGswFFTClear + tGswFFTAddH gives the FFT-domain sample of 1: external product = identity up to 2^11 units, equal to the product with tGswToFFTConvert(tGswClear + tGswAddH)");
}

static void extern_cases() {
    for (auto cf : CFS) for (int noisy = 0; noisy < 2; noisy++) {
        if (quick() && noisy && !(cf.l == 2 && cf.Bgbit == 10) && !(cf.l == 3)) continue;
        Ctx X; X.k = cf.k; X.l = cf.l; X.Bgbit = cf.Bgbit; bool built = false;
        auto build = [&]() { if (built) return; built = true; X.tp = new_TLweParams(N, cf.k, 0, 0.25); X.gp = new_TGswParams(cf.l, cf.Bgbit, X.tp); X.key = new_TGswKey(X.gp); uint64_t x = 100 + cf.k * 7 + cf.l; for (int i = 0; i < cf.k; i++) for (int j = 0; j < N; j++) X.key->key[i].coefs[j] = (int)(splitmix(x) & 1);
            X.g = new_TGswSample(X.gp); X.gf = new_TGswSampleFFT(X.gp); X.dec = new_IntPolynomial_array(X.gp->kpl, N); X.c = new_TLweSample(X.tp); X.r = new_TLweSample(X.tp); };
        std::vector<int> js = quick() ? std::vector<int>{1, N / 2, N - 1} : std::vector<int>{}; if (js.empty()) for (int j = 1; j < N; j += (cf.l == 2 && cf.Bgbit == 10 && cf.k == 1 && !noisy) ? 1 : 97) js.push_back(j);
        for (int mk = 0; mk < 7; mk++) for (int j : (mk == 3 ? js : std::vector<int>{0})) for (int ck = 0; ck < 8; ck++) {
            std::string key = fmt("extern/k=%d/l=%d/Bgbit=%d/rows=%s/m=%s/j=%d/c=%s", cf.k, cf.l, cf.Bgbit, noisy ? "noisy" : "noiseless", MK[mk], j, CK[ck]);
            if (!take(key)) continue; if (deadline()) return;
            build(); current(key);
            std::vector<int32_t> m(N); msg_poly(m.data(), mk, j); int64_t m1 = 0; for (int i = 0; i < N; i++) m1 += m[i] < 0 ? -m[i] : m[i];
            uint64_t x = fnv(key.data(), key.size()); double sigma = noisy ? 1e-7 : 0;
            ek::tgsw_exact(X.g, X.gp, X.key->key, x, m.data(), 0, sigma, &X.err); tGswToFFTConvert(X.gf, X.g, X.gp);
            tlwe_content(X.c, cf.k, ck, 3); std::vector<Torus32> phc(N), mph(N); ek::ring_phase(phc.data(), X.c, X.key->key, N, cf.k); ref::negacyclic_mul_fast(mph.data(), m.data(), phc.data(), N);
            // digits the library produces for this input (their correctness is C12's business)
            tGswTLweDecompH(X.dec, X.c, X.gp); std::vector<uint32_t> nt; noise_term(nt, X);
            int rem = 32 - cf.l * cf.Bgbit; int64_t amp = 1 + (int64_t)cf.k * N; int64_t trunc = rem > 0 ? m1 * amp * ((int64_t)1 << rem) : 0;
            int64_t Bgh = (int64_t)1 << (cf.Bgbit - 1); int64_t Efft = 2 * std::max<int64_t>(1, Bgh / 512);
            std::vector<std::vector<Torus32>> results;
            for (int v = 0; v < 3; v++) {
                if (v == 0) tGswExternProduct(X.r, X.g, X.c, X.gp); else { tLweCopy(X.r, X.c, X.tp); if (v == 1) tGswExternMulToTLwe(X.r, X.g, X.gp); else tGswFFTExternMulToTLwe(X.r, X.gf, X.gp); }
                std::vector<Torus32> ph(N); ek::ring_phase(ph.data(), X.r, X.key->key, N, cf.k);
                int64_t budget = trunc + (v == 2 ? Efft : Efft * X.gp->kpl) * amp + 2; int64_t worst = 0; int wj = 0;
                for (int q = 0; q < N; q++) { int64_t d = ref::sdiff(ph[q], (Torus32)((uint32_t)mph[q] + nt[q])); if (d < 0) d = -d; if (d > worst) { worst = d; wj = q; } }
                stat_max(fmt("extern_error_over_budget_permille_v%d", v), 1000.0 * worst / budget);
                static const char *VN[] = {"tGswExternProduct", "tGswExternMulToTLwe", "tGswFFTExternMulToTLwe"};
                if (worst > budget) { violation(key, fmt("%s: phase(result) - m*phase(c) - sum dec_p*e_p is %lld units at coefficient %d, analytic bound %lld (k=%d l=%d Bgbit=%d, |m|_1=%lld)", VN[v], (long long)worst, wj, (long long)budget, cf.k, cf.l, cf.Bgbit, (long long)m1)); break; }
                std::vector<Torus32> flat; for (int i = 0; i <= cf.k; i++) flat.insert(flat.end(), X.r->a[i].coefsT, X.r->a[i].coefsT + N); results.push_back(flat); eval(1);
            }
            // the variants agree with each other at ciphertext level within the FFT budgets (FFT key is a faithful image of the coefficient key)
            if (results.size() == 3) for (int v = 1; v < 3; v++) { int64_t w = 0; for (size_t q = 0; q < results[0].size(); q++) { int64_t d = ref::sdiff(results[0][q], results[v][q]); if (d < 0) d = -d; if (d > w) w = d; } if (w > 2 * Efft * X.gp->kpl + 2) violation(key, fmt("variants disagree at ciphertext level by %lld units (allowed %lld)", (long long)w, (long long)(2 * Efft * X.gp->kpl + 2))); }
            // input c untouched by tGswExternProduct / the decomposition
            if (mk && ck != 0) nontrivial(1);
            outcome(mix(fnv(results.empty() ? (const void *)"x" : (const void *)results[0].data(), 16), mk * 8 + ck));
        }
    }
    sample("extern/k=2/l=4/Bgbit=8/rows=noiseless/m=X^j/j=512/c=altMINMAX: exact gadget, noiseless rows: phase(result) == X^512*phase(c) up to FFT rounding, three variants");
    sample("extern/k=1/l=3/Bgbit=7/rows=noisy/m=small-norm/j=0/c=seeded: known row errors e_p; phase(result) - m*phase(c) - sum dec_p*e_p within |m|_1*(1+kN)*2^11 + FFT budget");
}

static void rotate_cases() {
    static const int EX[] = {0, 1, N - 1, N, N + 1, N2 - 1};
    for (auto cf : CFS) for (int n = 1; n <= 3; n++) {
        if (cf.l == 8 || cf.l == 1) continue; if (quick() && n == 3 && !(cf.k == 1 && cf.l == 2)) continue;
        ek::Set *S = nullptr; TLweSample *acc = nullptr, *acc0 = nullptr, *acc2 = nullptr;
        auto build = [&]() { if (S) return; S = ek::make(n, cf.k, cf.l, cf.Bgbit, 2, 1, 61 + n, 0, 0, n == 1 ? 1 : 0); if (n >= 2) { S->s->key[0] = 1; uint64_t x = 5; ek::tgsw_exact(&S->bk->bk[0], S->gp, S->ring->key, x, nullptr, 1, 0, nullptr); delete_LweBootstrappingKeyFFT(S->bkFFT); S->bkFFT = new_LweBootstrappingKeyFFT(S->bk); }
            acc = new_TLweSample(S->tp); acc0 = new_TLweSample(S->tp); acc2 = new_TLweSample(S->tp); };
        long total = 1; for (int i = 0; i < n; i++) total *= (n == 1 ? N2 : 6);
        for (long e = 0; e < total; e++) {
            std::vector<int32_t> bara(n); long t = e; for (int i = 0; i < n; i++) { bara[i] = n == 1 ? (int)(t % N2) : EX[t % 6]; t /= (n == 1 ? N2 : 6); }
            if (n == 1 && quick() && !(e % 16 == (long)(vf::S().seed & 15) || e < 2 || e > N2 - 3 || (e >= N - 2 && e <= N + 1))) continue;
            std::string key = fmt("rotate/n=%d/k=%d/l=%d/Bgbit=%d/bara=%d,%d,%d", n, cf.k, cf.l, cf.Bgbit, bara[0], n > 1 ? bara[1] : -1, n > 2 ? bara[2] : -1);
            if (!take(key)) continue; if (deadline()) return;
            build(); current(key);
            tlwe_content(acc0, cf.k, 5, 9 + e % 3); std::vector<Torus32> ph0(N), want(N), ph(N); ek::ring_phase(ph0.data(), acc0, S->ring->key, N, cf.k);
            int rot = 0, nz = 0; for (int i = 0; i < n; i++) { rot += bara[i] * S->s->key[i]; if (bara[i]) nz++; } rot %= N2; ref::mul_by_xai(want.data(), rot, ph0.data(), N);
            int64_t budget = ek::blind_rotate_budget(S, nz) * 2;   // (X^a - 1) doubles the magnitude entering the gadget truncation
            for (int fft = 1; fft >= 0; fft--) {
                tLweCopy(acc, acc0, S->tp);
                if (fft) tfhe_blindRotate_FFT(acc, S->bkFFT->bkFFT, bara.data(), n, S->gp); else { if (n == 1 && bara[0] % 64 != 1 && bara[0] != 0 && bara[0] != N && bara[0] != N2 - 1) continue; tfhe_blindRotate(acc, S->bk->bk, bara.data(), n, S->gp); }
                if (nz == 0) { for (int i = 0; i <= cf.k; i++) if (memcmp(acc->a[i].coefsT, acc0->a[i].coefsT, N * 4)) violation(key, "all exponents zero: the accumulator must be left untouched"); }
                ek::ring_phase(ph.data(), acc, S->ring->key, N, cf.k); int64_t worst = 0; int wj = 0; int64_t b2 = budget * (fft ? 1 : S->gp->kpl);
                for (int q = 0; q < N; q++) { int64_t d = ref::sdiff(ph[q], want[q]); if (d < 0) d = -d; if (d > worst) { worst = d; wj = q; } }
                if (worst > b2) violation(key, fmt("tfhe_blindRotate%s: accumulator phase is not X^%d * phase(acc): coefficient %d off by %lld units, bound %lld (secret bits %d%d%d)", fft ? "_FFT" : "", rot, wj, (long long)worst, (long long)b2, S->s->key[0], n > 1 ? S->s->key[1] : 0, n > 2 ? S->s->key[2] : 0));
                if (!fft) { /* FFT-domain and coefficient-domain keys agree */ }
                eval(1);
            }
            if (nz) nontrivial(1); outcome(mix(rot, n));
        }
        if (S) { delete_TLweSample(acc); delete_TLweSample(acc0); delete_TLweSample(acc2); ek::destroy(S); }
    }
    sample("rotate/n=3/k=1/l=2/Bgbit=10/bara=2047,1024,1: phase(acc_out) == X^(sum bara_i s_i) * phase(acc_in) within the analytic bound, FFT and coefficient-domain keys");
}

int main(int argc, char **argv) {
    init(argc, argv);
    std::string part = opt("part", "all");
    if (part == "all" || part == "extern") { fft_addh_cases(); extern_cases(); }
    if (part == "all" || part == "rotate") rotate_cases();
    return finish();
}
