// C12 — gadget decomposition: balanced digits that recompose; input unchanged; every position/lane identical;
// TLWE-level wrapper; digest of all digits for optim-vs-debug (vector vs scalar) equality (compared by the driver, "xcmp:").
#include "vf.hpp"
#include "ref.hpp"
#include <tfhe.h>
#include <tfhe_core.h>
#include <polynomials.h>
#include <tgsw_functions.h>

using namespace vf;
static const int N = 1024;

struct Layout { int l, Bgbit; };

static bool check_coeff(const std::string &key, const Layout &L, uint32_t x, IntPolynomial *dec, int j) {
    const int64_t Bg = (int64_t)1 << L.Bgbit;
    uint32_t r = 0;
    for (int p = 0; p < L.l; p++) {
        int64_t d = dec[p].coefs[j];
        if (d < -Bg / 2 || d >= Bg / 2) { violation(key, fmt("digit %d of x=0x%08x is %lld, outside [-%lld,%lld) (l=%d Bgbit=%d position %d)", p, x, (long long)d, (long long)(Bg / 2), (long long)(Bg / 2), L.l, L.Bgbit, j)); return false; }
        r += (uint32_t)(int32_t)d << (32 - (p + 1) * L.Bgbit);
    }
    int64_t diff = (int64_t)(int32_t)(x - r);
    int rem = 32 - L.l * L.Bgbit;
    int64_t bound = (int64_t)1 << rem; // strict
    if (rem == 0 ? diff != 0 : (diff >= bound || diff <= -bound)) { violation(key, fmt("x=0x%08x recomposes to 0x%08x: difference %lld units, allowed < 2^%d (l=%d Bgbit=%d position %d)", x, r, (long long)diff, rem, L.l, L.Bgbit, j)); return false; }
    return true;
}

// histories: layout A then layout B in one thread (every ordered pair of the grid): B's digits must satisfy the relation
static void layout_histories() {
    std::vector<Layout> grid = {{3, 7}, {2, 10}, {1, 1}, {1, 8}, {2, 2}, {16, 2}, {4, 8}, {32, 1}, {2, 16}, {8, 4}, {3, 10}, {5, 6}, {1, 30}, {4, 7}, {2, 8}};
    TLweParams *tp = new_TLweParams(N, 1, 0., 1.); TorusPolynomial *in = new_TorusPolynomial(N);
    for (size_t a = 0; a < grid.size(); a++) for (size_t b = 0; b < grid.size(); b++) { if (a == b) continue;
        std::string key = fmt("layout-history/(%d,%d)-then-(%d,%d)", grid[a].l, grid[a].Bgbit, grid[b].l, grid[b].Bgbit);
        if (!take(key)) continue; if (deadline()) break; current(key);
        TGswParams *ga = new_TGswParams(grid[a].l, grid[a].Bgbit, tp), *gb = new_TGswParams(grid[b].l, grid[b].Bgbit, tp); IntPolynomial *da = new_IntPolynomial_array(grid[a].l, N), *db = new_IntPolynomial_array(grid[b].l, N);
        uint64_t x = a * 31 + b; bool ok = true;
        for (int rep = 0; rep < 2 && ok; rep++) { for (int j = 0; j < N; j++) in->coefsT[j] = j < 8 ? (Torus32)(j * 0x20000000u) : (Torus32)splitmix(x);
            tGswTorus32PolynomialDecompH(da, in, ga); tGswTorus32PolynomialDecompH(db, in, gb);
            for (int j = 0; j < N && ok; j++) ok = check_coeff(key, grid[b], (uint32_t)in->coefsT[j], db, j) && check_coeff(key, grid[a], (uint32_t)in->coefsT[j], da, j); }
        eval(4 * N); nontrivial(1); outcome(mix(a, b)); delete_IntPolynomial_array(grid[a].l, da); delete_IntPolynomial_array(grid[b].l, db); delete_TGswParams(ga); delete_TGswParams(gb);
    }
    delete_TorusPolynomial(in); delete_TLweParams(tp);
    sample("layout-history/(2,10)-then-(3,10): one thread decomposes with (l,Bgbit)=(2,10), then with (3,10): both satisfy the digit relation");
}
// ring degrees other than 1024 (the decomposition itself is size-generic; multiples of 8, the vector width): every position must give the digits of its own value
static void sizes() {
    for (int n : {8, 16, 24, 512, 1024, 1032, 2048, 2056, 4096, 8192}) for (Layout L : {Layout{3, 7}, Layout{2, 10}, Layout{4, 8}, Layout{1, 8}}) {
        std::string key = fmt("sizes/N=%d/l=%d/Bgbit=%d", n, L.l, L.Bgbit);
        if (!take(key)) continue; if (deadline()) return; current(key);
        TLweParams *tp = new_TLweParams(n, 1, 0., 1.); TGswParams *gp = new_TGswParams(L.l, L.Bgbit, tp); TorusPolynomial *in = new_TorusPolynomial(n); IntPolynomial *dec = new_IntPolynomial_array(L.l, n);
        uint64_t x = n * 31 + L.l; bool ok = true;
        for (int rep = 0; rep < 7 && ok; rep++) { for (int j = 0; j < n; j++) in->coefsT[j] = rep == 4 ? 0 : rep == 5 ? INT32_MIN : rep == 6 ? (j == n - 1 ? 1 : 0) : rep == 0 ? (Torus32)(j * 2654435761u) : (Torus32)splitmix(x);   // 4: the zero polynomial, 5: constant, 6: a single unit coefficient
            std::vector<Torus32> backup(in->coefsT, in->coefsT + n); for (int p = 0; p < L.l; p++) memset(dec[p].coefs, 0x77, n * 4);
            tGswTorus32PolynomialDecompH(dec, in, gp);
            if (memcmp(backup.data(), in->coefsT, n * 4)) { violation(key, fmt("input polynomial modified (N=%d)", n)); ok = false; }
            for (int j = 0; j < n && ok; j++) ok = check_coeff(key, L, (uint32_t)backup[j], dec, j); }
        eval(7 * (uint64_t)n); nontrivial(1); outcome(mix(n, L.l * 100 + L.Bgbit));
        delete_IntPolynomial_array(L.l, dec); delete_TorusPolynomial(in); delete_TGswParams(gp); delete_TLweParams(tp);
    }
    sample("sizes/N=4096/l=3/Bgbit=7: decomposition of polynomials of degree 4096 (position-dependent and seeded contents): every coefficient's digits satisfy the relation for that coefficient's value");
}
int main(int argc, char **argv) {
    init(argc, argv);
    if (opt("layouts") != "default") { layout_histories(); sizes(); }
    std::vector<Layout> layouts = quick() ? std::vector<Layout>{{3, 7}, {2, 10}, {4, 8}, {1, 1}}
                                          : std::vector<Layout>{{3, 7}, {2, 10}, {1, 1}, {1, 8}, {2, 2}, {16, 2}, {4, 8}, {32, 1}, {2, 16}, {8, 4}, {3, 10}, {5, 6}, {1, 30}};
    if (opt("layouts") == "default") layouts = {{3, 7}, {2, 10}};
    for (auto L : layouts) {
        TLweParams *tp = new_TLweParams(N, 1, 0., 1.);
        TGswParams *gp = new_TGswParams(L.l, L.Bgbit, tp);
        TorusPolynomial *in = new_TorusPolynomial(N);
        IntPolynomial *dec = new_IntPolynomial_array(L.l, N);
        std::vector<Torus32> backup(N);
        // ---- full sweep: chunk c covers x in [c<<24, (c+1)<<24), 1024 consecutive values per polynomial
        for (uint32_t c = 0; c < 256; c++) {
            std::string key = fmt("decomp/l=%d/Bgbit=%d/chunk=%u", L.l, L.Bgbit, c);
            if (!take(key)) continue;
            if (deadline()) break;
            current(key);
            uint64_t digest = 1469598103934665603ULL; bool ok = true; uint64_t nt = 0;
            for (uint32_t blk = 0; blk < (1u << 14) && ok; blk++) {
                uint32_t base = (c << 24) | (blk << 10);
                for (int j = 0; j < N; j++) in->coefsT[j] = (Torus32)(base + j);
                memcpy(backup.data(), in->coefsT, N * 4);
                for (int p = 0; p < L.l; p++) memset(dec[p].coefs, 0x77, N * 4);
                tGswTorus32PolynomialDecompH(dec, in, gp);
                if (memcmp(backup.data(), in->coefsT, N * 4)) { violation(key, fmt("input polynomial modified by the decomposition (values 0x%08x.., l=%d Bgbit=%d)", base, L.l, L.Bgbit)); ok = false; break; }
                for (int j = 0; j < N && ok; j++) ok = check_coeff(key, L, base + j, dec, j);
                for (int p = 0; p < L.l; p++) digest = fnv(dec[p].coefs, N * 4, digest);
                if ((blk & 0x3ff) == 0) outcome(mix(digest, L.l * 100 + L.Bgbit));
            }
            eval(1u << 24); nontrivial(1u << 24); (void)nt;
            info("xcmp:" + key, fmt("%016llx", (unsigned long long)digest));
            if (c == 0x7f) sample(fmt("l=%d Bgbit=%d x in 0x7f000000..0x7fffffff (1024 consecutive values per polynomial): digits in [-Bg/2,Bg/2), 0 <= |x - sum d_p 2^(32-(p+1)Bgbit)| < 2^%d, input bytes unchanged", L.l, L.Bgbit, 32 - L.l * L.Bgbit));
        }
        // ---- positions / lanes: one value at every position must give the digits it gives at position 0, whatever the neighbours hold
        {
            std::string key = fmt("positions/l=%d/Bgbit=%d", L.l, L.Bgbit);
            if (take(key) && !deadline()) {
                current(key);
                bool ok = true; uint64_t x = 12345 + S().seed;
                for (uint32_t v = 0; v < (1u << 16) && ok; v++) {
                    uint32_t val = (v << 16) | ((v * 40503u) & 0xFFFF);
                    // reference digits at position 0 among constant neighbours
                    for (int j = 0; j < N; j++) in->coefsT[j] = (Torus32)val;
                    tGswTorus32PolynomialDecompH(dec, in, gp);
                    std::vector<int32_t> d0(L.l); for (int p = 0; p < L.l; p++) d0[p] = dec[p].coefs[0];
                    for (int j = 0; j < N && ok; j++) for (int p = 0; p < L.l; p++) if (dec[p].coefs[j] != d0[p]) { violation(key, fmt("value 0x%08x: digit %d at position %d is %d, at position 0 it is %d", val, p, j, dec[p].coefs[j], d0[p])); ok = false; break; }
                    // same value among arbitrary neighbours, at a moving position (covers all 1024 positions, all 8 lanes, last vector)
                    int pos = v % N;
                    for (int j = 0; j < N; j++) in->coefsT[j] = (Torus32)splitmix(x);
                    in->coefsT[pos] = (Torus32)val;
                    tGswTorus32PolynomialDecompH(dec, in, gp);
                    for (int p = 0; p < L.l; p++) if (dec[p].coefs[pos] != d0[p]) { violation(key, fmt("value 0x%08x: digit %d at position %d among other neighbours is %d, at position 0 it is %d", val, p, pos, dec[p].coefs[pos], d0[p])); ok = false; break; }
                    outcome(mix(d0[0], L.Bgbit));
                }
                eval(2u << 16); nontrivial(1u << 16);
            }
        }
        delete_IntPolynomial_array(L.l, dec); delete_TorusPolynomial(in);
        // ---- TLWE-level wrapper, k in {1,2}
        for (int k = 1; k <= 2; k++) {
            std::string key = fmt("tlwedecomp/l=%d/Bgbit=%d/k=%d", L.l, L.Bgbit, k);
            if (!take(key) || deadline()) continue;
            current(key);
            TLweParams *tpk = new_TLweParams(N, k, 0., 1.);
            TGswParams *gpk = new_TGswParams(L.l, L.Bgbit, tpk);
            TLweSample *s = new_TLweSample(tpk);
            IntPolynomial *all = new_IntPolynomial_array((k + 1) * L.l, N), *one = new_IntPolynomial_array(L.l, N);
            uint64_t x = 777 + k; bool ok = true;
            for (int rep = 0; rep < 8 && ok; rep++) {
                for (int i = 0; i <= k; i++) for (int j = 0; j < N; j++) s->a[i].coefsT[j] = rep == 0 ? INT32_MIN : rep == 1 ? INT32_MAX : (Torus32)splitmix(x);
                std::vector<Torus32> bak((k + 1) * N); for (int i = 0; i <= k; i++) memcpy(&bak[i * N], s->a[i].coefsT, N * 4);
                for (int q = 0; q < (k + 1) * L.l; q++) memset(all[q].coefs, 0x55, N * 4);
                tGswTLweDecompH(all, s, gpk);
                for (int i = 0; i <= k && ok; i++) {
                    if (memcmp(&bak[i * N], s->a[i].coefsT, N * 4)) { violation(key, "TLWE sample modified by tGswTLweDecompH"); ok = false; break; }
                    tGswTorus32PolynomialDecompH(one, &s->a[i], gpk);
                    for (int p = 0; p < L.l && ok; p++) {
                        if (memcmp(one[p].coefs, all[i * L.l + p].coefs, N * 4)) { violation(key, fmt("block %d digit %d of tGswTLweDecompH differs from the decomposition of component %d", i, p, i)); ok = false; }
                        for (int j = 0; j < N && ok; j += 37) ok = check_coeff(key, L, (uint32_t)s->a[i].coefsT[j], all + i * L.l, j);
                    }
                }
                eval((k + 1) * N); nontrivial((k + 1) * N);
            }
            if (k == 2) sample(fmt("tGswTLweDecompH k=2 l=%d Bgbit=%d: block i of the result equals the decomposition of component i (8 contents: MIN, MAX, 6 seeded)", L.l, L.Bgbit));
            delete_IntPolynomial_array((k + 1) * L.l, all); delete_IntPolynomial_array(L.l, one); delete_TLweSample(s); delete_TGswParams(gpk); delete_TLweParams(tpk);
        }
        delete_TGswParams(gp); delete_TLweParams(tp);
    }
    return finish();
}
