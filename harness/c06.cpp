// C06 — deterministic, thread-safe, history-independent evaluation.
//   part=sched : stateless exploration of all schedules with at most B preemptions (iteratively B = 0,1,2) of 2-3 real threads running the
//                scenarios of c06_bodies.hpp on the real library, scheduling points = interposed kernels / planner / mutex calls / thread exit.
//                Oracles: every thread's output bytes equal its sequential reference; no deadlock; FFTW planner monitor.
//   part=hist  : every operation sequence up to the depth bound on a fresh thread followed by a probe gate: probe bytes == reference.
#define SCHED_INTERPOSE
#include "sched.hpp"
#include "c06_bodies.hpp"
#include <thread>
#include <sstream>
using namespace vf;
using namespace c06;

// ---- one execution in a forked child: reference (sequential, main thread, scheduler inactive), then the scheduled run
static std::string enc_trace(const sched::Trace &t) { std::string s; for (auto &p : t.points) s += fmt("%d,%d,%d,%d,%s;", p.running, p.running_enabled ? 1 : 0, p.n_enabled, p.chosen, p.label.c_str()); return s; }
struct Pt { int running, ren, n, chosen; std::string label; };
static std::vector<Pt> dec_trace(const std::string &s) { std::vector<Pt> v; size_t p = 0; while (p < s.size()) { size_t e = s.find(';', p); if (e == std::string::npos) break; Pt q; char lab[128] = ""; if (sscanf(s.substr(p, e - p).c_str(), "%d,%d,%d,%d,%127[^;]", &q.running, &q.ren, &q.n, &q.chosen, lab) >= 4) { q.label = lab; v.push_back(q); } p = e + 1; } return v; }
static std::string sched_str(const std::vector<int> &c) { std::string s; for (size_t i = 0; i < c.size(); i++) s += (i ? "." : "") + std::to_string(c[i]); return s.empty() ? "-" : s; }

struct ExecResult { std::vector<Pt> pts; std::string verdict; bool died = false; };
static ExecResult execute(const Scenario &sc, const std::vector<int> &prefix, const std::string &key) {
    ExecResult R;
    Fate f = forked([&] {
        sc.prepare();
        std::vector<std::string> refs(sc.nthreads), outs(sc.nthreads);
        // the scheduled threads run FIRST, in a process that has not yet used the library's FFT: lazily built process-wide state is built under the
        // schedule being explored; the sequential references are computed afterwards (evaluation is history-independent, so the order is immaterial)
        if (sc.before_run) sc.before_run();
        std::vector<std::function<void()>> bodies; for (int t = 0; t < sc.nthreads; t++) bodies.push_back([&, t] { outs[t] = sc.work(t); });
        sched::Trace tr = sched::run(bodies, prefix);
        if (sc.after_run) sc.after_run();
        if (!tr.deadlock) for (int t = 0; t < sc.nthreads; t++) refs[t] = sc.work(t);
        std::string verdict;
        if (tr.diverged) verdict = "FRAMEWORK: schedule prefix diverged during replay";
        else if (tr.deadlock) verdict = "deadlock: no enabled thread";
        else if (!tr.monitor.empty()) verdict = tr.monitor;
        else for (int t = 0; t < sc.nthreads; t++) if (outs[t] != refs[t]) { size_t d = 0; while (d < outs[t].size() && d < refs[t].size() && outs[t][d] == refs[t][d]) d++; verdict = fmt("thread %d: output differs from its sequential reference (first differing byte %zu of %zu)", t, d, refs[t].size()); break; }
        blob(enc_trace(tr) + "|" + verdict);
        if (tr.deadlock) { fflush(nullptr); }
    }, 120, true, true);   // strict: an execution that does not finish is a verdict (wedged token / real deadlock)
    if (f.died()) { R.died = true; R.verdict = "process died under this schedule: " + fate_str(f) + " " + f.text.substr(0, 200); return R; }
    std::string b = S().blob; size_t bar = b.rfind('|'); if (bar == std::string::npos) { R.verdict = "FRAMEWORK: no trace from child"; return R; }
    R.pts = dec_trace(b.substr(0, bar)); R.verdict = b.substr(bar + 1);
    return R;
}

struct Explorer { const Scenario &sc; int bound; std::string base; uint64_t schedules = 0, points = 0, bad = 0; std::set<std::string> verdicts; size_t maxpts = 0; bool stop = false; uint64_t with_preempt = 0;
    void explore(const std::vector<int> &prefix) {
        if (stop) return; if (deadline()) { stop = true; return; }
        std::string key = base + "/sched=" + sched_str(prefix); current(key);
        ExecResult x = execute(sc, prefix, key);
        schedules++; points += x.pts.size(); if (x.pts.size() > maxpts) maxpts = x.pts.size();
        eval(1); int pre = 0; for (auto &p : x.pts) if (p.ren && p.chosen) pre++; if (pre) { nontrivial(1); with_preempt++; }
        outcome(fnv(x.verdict.data(), x.verdict.size()));
        if (!x.verdict.empty()) { if (!x.verdict.compare(0, 9, "FRAMEWORK")) { fprintf(stderr, "%s: %s\n", key.c_str(), x.verdict.c_str()); exit(2); } bad++; verdicts.insert(x.verdict); violation(key, sc.name + ": " + x.verdict + fmt(" [%d preemption(s), %zu choice points]", pre, x.pts.size())); if (bad >= 3) stop = true; return; }
        if (x.died) return;
        std::vector<int> choices; for (auto &p : x.pts) choices.push_back(p.chosen);
        for (size_t i = prefix.size(); i < x.pts.size(); i++) {
            int cost = 0; for (size_t q = 0; q < i; q++) if (x.pts[q].ren && x.pts[q].chosen) cost++;
            if (x.pts[i].ren) cost++;                       // switching away from a runnable thread is a preemption
            if (cost > bound) continue;
            for (int alt = 1; alt < x.pts[i].n; alt++) { std::vector<int> np(choices.begin(), choices.begin() + i); np.push_back(alt); explore(np); if (stop) return; }
        }
    }
};

static void part_sched() {
    int T = (int)opti("threads", 2); int tiny = (int)opti("tiny_n", quick() ? 1 : 2); int maxb = (int)opti("bound", 2);
    std::vector<int> churn = quick() ? std::vector<int>{31, 63} : std::vector<int>{1, 3, 7, 15, 31, 63};
    for (auto &sc : scenarios(T, tiny, churn)) {
        if (opt("scenario", "all") != "all" && opt("scenario") != sc.name.substr(0, 2)) continue;
        std::string base = fmt("sched/%s/T=%d", sc.name.c_str(), sc.nthreads);
        if (!S().only.empty()) { // replay of one schedule
            if (S().only.compare(0, base.size(), base)) continue; std::string ss = S().only.substr(S().only.find("/sched=") + 7); std::vector<int> pre; if (ss != "-") { std::stringstream st(ss); std::string tok; while (std::getline(st, tok, '.')) pre.push_back(atoi(tok.c_str())); }
            ExecResult x = execute(sc, pre, S().only); eval(1); if (!x.verdict.empty()) violation(S().only, sc.name + ": " + x.verdict); continue; }
        if (!mine()) continue;
        // determinism self-check: the default schedule twice
        { ExecResult a = execute(sc, {}, base), b = execute(sc, {}, base); std::string ea, eb; for (auto &p : a.pts) ea += fmt("%d%d%d%s", p.running, p.n, p.chosen, p.label.c_str()); for (auto &p : b.pts) eb += fmt("%d%d%d%s", p.running, p.n, p.chosen, p.label.c_str());
          if (ea != eb && a.verdict.empty() && b.verdict.empty()) { fprintf(stderr, "FRAMEWORK: scenario %s is not deterministic under the scheduler\n", sc.name.c_str()); exit(2); } }
        for (int b = 0; b <= maxb; b++) {
            Explorer ex{sc, b, base}; ex.explore({});
            stat_sum(fmt("schedules/%s/bound%d", sc.name.c_str(), b), (double)ex.schedules);
            stat_sum("states", (double)ex.points); stat_sum("transitions", (double)ex.points + (double)ex.schedules); stat_sum("traces_validated", (double)ex.schedules);
            stat_max(fmt("choice_points_per_execution/%s", sc.name.c_str()), (double)ex.maxpts);
            if (ex.stop && !S().violations.empty()) break; if (ex.stop) { S().exhaustive = false; break; }
            if (b == maxb) sample(fmt("%s, %d threads: %llu schedules with <= %d preemptions, up to %zu choice points each; every thread's output equals its sequential reference", sc.name.c_str(), sc.nthreads, (unsigned long long)ex.schedules, b, ex.maxpts));
        }
    }
}

// ---- histories
struct Op { const char *name; std::function<void()> run; };
static void part_hist() {
    uint32_t sd[2] = {128, 77}; tfhe_random_generator_setSeed(sd, 2);
    TFheGateBootstrappingParameterSet *ps = new_default_gate_bootstrapping_parameters(128); gates::SK *sk = new_random_gate_bootstrapping_secret_keyset(ps);
    TFheGateBootstrappingParameterSet *ps80 = new_default_gate_bootstrapping_parameters(80); gates::SK *sk80 = new_random_gate_bootstrapping_secret_keyset(ps80);
    ek::Set *tiny = ek::make(3, 2, 3, 7, 4, 2, 91); TFheGateBootstrappingParameterSet *pst = new TFheGateBootstrappingParameterSet(4, 2, tiny->lp, tiny->gp); gates::CK *ckt = new gates::CK(pst, tiny->bk, tiny->bkFFT);
    int n = ps->in_out_params->n; LweSample *in = new_gate_bootstrapping_ciphertext_array(3, ps), *in80 = new_gate_bootstrapping_ciphertext_array(2, ps80), *tin = new_LweSample_array(2, tiny->lp);
    bootsSymEncrypt(in, 1, sk); bootsSymEncrypt(in + 1, 0, sk); bootsSymEncrypt(in + 2, 1, sk); bootsSymEncrypt(in80, 1, sk80); bootsSymEncrypt(in80 + 1, 1, sk80);
    { uint64_t x = 3; for (int q = 0; q < 2; q++) { uint32_t b = (uint32_t)gates::MU8; for (int i = 0; i < 3; i++) { tin[q].a[i] = (Torus32)splitmix(x); b += (uint32_t)tin[q].a[i] * (uint32_t)tiny->s->key[i]; } tin[q].b = (Torus32)b; } }
    prep_polys(3, N);
    auto probe = [&]() { LweSample *r = new_gate_bootstrapping_ciphertext(ps); std::string o; bootsNAND(r, in, in + 1, &sk->cloud); o = lwe_bytes(r, n); bootsMUX(r, in, in + 1, in + 2, &sk->cloud); o += lwe_bytes(r, n); bootsXOR(r, in + 2, in, &sk->cloud); o += lwe_bytes(r, n); tfhe_bootstrap_FFT(r, sk->cloud.bkFFT, (Torus32)0x12345678, in + 1); o += lwe_bytes(r, n); delete_gate_bootstrapping_ciphertext(r);
        /* and under the k=2 key: a gate and an FFT external product (their accumulators have a middle mask polynomial) */
        { LweSample *rt = new_LweSample(tiny->lp); bootsNAND(rt, tin, tin + 1, ckt); o += lwe_bytes(rt, 3); bootsMUX(rt, tin, tin + 1, tin, ckt); o += lwe_bytes(rt, 3); delete_LweSample(rt);
          TLweSample *a = new_TLweSample(tiny->tp); for (int i = 0; i <= 2; i++) for (int j = 0; j < N; j++) a->a[i].coefsT[j] = (Torus32)(i * 104729 + j * 37); tGswFFTExternMulToTLwe(a, &tiny->bkFFT->bkFFT[1], tiny->gp); for (int i = 0; i <= 2; i++) o.append((const char *)a->a[i].coefsT, N * 4); delete_TLweSample(a); }
        return o; };
    std::vector<Op> ops = {
        {"NAND128", [&] { LweSample *r = new_gate_bootstrapping_ciphertext(ps); bootsNAND(r, in + 1, in + 2, &sk->cloud); delete_gate_bootstrapping_ciphertext(r); }},
        {"ANDNY128", [&] { LweSample *r = new_gate_bootstrapping_ciphertext(ps); bootsANDNY(r, in + 1, in + 2, &sk->cloud); delete_gate_bootstrapping_ciphertext(r); }},
        {"MUX128", [&] { LweSample *r = new_gate_bootstrapping_ciphertext(ps); bootsMUX(r, in + 2, in + 1, in, &sk->cloud); delete_gate_bootstrapping_ciphertext(r); }},
        {"NAND80", [&] { LweSample *r = new_gate_bootstrapping_ciphertext(ps80); bootsNAND(r, in80, in80 + 1, &sk80->cloud); delete_gate_bootstrapping_ciphertext(r); }},
        {"XOR80", [&] { LweSample *r = new_gate_bootstrapping_ciphertext(ps80); bootsXOR(r, in80, in80 + 1, &sk80->cloud); delete_gate_bootstrapping_ciphertext(r); }},
        {"MUX80", [&] { LweSample *r = new_gate_bootstrapping_ciphertext(ps80); bootsMUX(r, in80, in80 + 1, in80, &sk80->cloud); delete_gate_bootstrapping_ciphertext(r); }},
        {"bootstrap-mu=1/4", [&] { LweSample *r = new_gate_bootstrapping_ciphertext(ps); tfhe_bootstrap_FFT(r, sk->cloud.bkFFT, (Torus32)0x40000000, in + 2); delete_gate_bootstrapping_ciphertext(r); }},
        {"NANDtiny-k2", [&] { LweSample *r = new_LweSample(tiny->lp); bootsNAND(r, tin, tin + 1, ckt); delete_LweSample(r); }},
        {"FFTprod-random", [&] { TorusPolynomial *r = new_TorusPolynomial(N); torusPolynomialMultFFT(r, SH().ia[0], SH().tb[0]); delete_TorusPolynomial(r); }},
        {"FFTprod-allmax", [&] { TorusPolynomial *r = new_TorusPolynomial(N), *b = new_TorusPolynomial(N); IntPolynomial *a = new_IntPolynomial(N); for (int i = 0; i < N; i++) { a->coefs[i] = 512; b->coefsT[i] = INT32_MAX; } torusPolynomialMultFFT(r, a, b); delete_TorusPolynomial(r); delete_TorusPolynomial(b); delete_IntPolynomial(a); }},
        {"FFTprod-zero", [&] { TorusPolynomial *r = new_TorusPolynomial(N), *b = new_TorusPolynomial(N); IntPolynomial *a = new_IntPolynomial(N); for (int i = 0; i < N; i++) { a->coefs[i] = 0; b->coefsT[i] = 0; } torusPolynomialAddMulRFFT(r, a, b); delete_TorusPolynomial(r); delete_TorusPolynomial(b); delete_IntPolynomial(a); }},
        {"extern-product-k2", [&] { TLweSample *a = new_TLweSample(tiny->tp); for (int i = 0; i <= 2; i++) for (int j = 0; j < N; j++) a->a[i].coefsT[j] = (Torus32)(i * 7919 + j * 31); tGswFFTExternMulToTLwe(a, &tiny->bkFFT->bkFFT[0], tiny->gp); delete_TLweSample(a); }},
        {"keygen-private-seed", [&] { uint32_t s2[1] = {4}; tfhe_random_generator_setSeed(s2, 1); LweParams *lp = new_LweParams(20, 1e-3, 0.1); LweKey *k = new_LweKey(lp); lweKeyGen(k); LweSample *c = new_LweSample(lp); lweSymEncrypt(c, 5, 1e-3, k); delete_LweSample(c); delete_LweKey(k); delete_LweParams(lp); }},
        {"export-import-params", [&] { std::ostringstream os; export_tfheGateBootstrappingParameterSet_toStream(os, ps80); std::istringstream is(os.str()); TFheGateBootstrappingParameterSet *q = new_tfheGateBootstrappingParameterSet_fromStream(is); delete_gate_bootstrapping_parameters(q); }},
        {"decomp+karatsuba", [&] { TorusPolynomial *r = new_TorusPolynomial(N); torusPolynomialMultKaratsuba(r, SH().ia[1], SH().tb[1]); IntPolynomial *d = new_IntPolynomial_array(3, N); tGswTorus32PolynomialDecompH(d, r, tiny->gp); delete_IntPolynomial_array(3, d); delete_TorusPolynomial(r); }},
    };
    // reference: the probe as the first operation of a fresh thread
    std::string reference; { std::thread t([&] { reference = probe(); }); t.join(); }
    int depth = (int)opti("depth", quick() ? 2 : 3); int nops = (int)ops.size();
    long total = 1; std::vector<long> pw; for (int d = 0; d <= depth; d++) { pw.push_back(total); total *= nops; }
    for (int d = 0; d <= depth; d++) for (long e = 0; e < pw[d]; e++) {
        std::vector<int> seq; long t = e; for (int q = 0; q < d; q++) { seq.push_back((int)(t % nops)); t /= nops; }
        std::string key = "hist/"; for (int o : seq) key += std::string(ops[o].name) + ","; if (seq.empty()) key += "(probe-only-second-thread)";
        if (!take(key)) continue; if (deadline()) return; current(key);
        Fate f = forked([&] { std::string got; std::thread t([&] { for (int o : seq) ops[o].run(); got = probe(); }); t.join();
            if (got != reference) { size_t dd = 0; while (dd < got.size() && got[dd] == reference[dd]) dd++; violation(key, fmt("probe gates after this history give different ciphertext bytes than on a fresh thread (first differing byte %zu of %zu)", dd, reference.size())); }
            eval(1); if (!seq.empty()) nontrivial(1); outcome(mix(fnv(got.data(), 32), seq.size())); }, 600);
        if (f.died()) violation(key, "process died: " + fate_str(f) + " " + f.text.substr(0, 300));
    }
    sample("hist/NAND80,extern-product-k2,: on a fresh thread run an 80-bit NAND, then a k=2 external product, then the probe (NAND, MUX, XOR with the 128-bit key): probe bytes == reference");
}

// ---- model support: record the per-thread event sequence of the implementation / replay a model trace (one thread id per model step)
static const std::set<std::string> &relevant_points() { static std::set<std::string> r; if (r.empty()) { std::stringstream st(opt("relevant", "mutex_lock;mutex_unlock;fftw_plan_dft_r2c_1d:pre;fftw_destroy_plan:pre")); std::string tok; while (std::getline(st, tok, ';')) r.insert(tok); } return r; }
static void part_record() { // default schedule, thread 0 runs alone first: its event list is the protocol of one thread
    int T = (int)opti("threads", 2); auto scs = scenarios(T, 1); const Scenario &sc = scs[0];
    Fate f = forked([&] { sc.prepare(); std::vector<std::function<void()>> bodies; std::vector<std::string> outs(sc.nthreads); for (int t = 0; t < sc.nthreads; t++) bodies.push_back([&, t] { outs[t] = sc.work(t); });
        sched::Trace tr = sched::run(bodies, {}, true); std::string ev; for (auto &e : tr.events) ev += e + ","; blob(ev); }, 60);
    if (f.died()) { fprintf(stderr, "record failed: %s\n", fate_str(f).c_str()); exit(2); }
    info("events", S().blob); eval(1); nontrivial(2); outcome(fnv(S().blob.data(), S().blob.size())); outcome(1);
}
static void part_script() { // script=0.0.1.1...: thread ids, one per model step; relevant points only
    int T = (int)opti("threads", 2); auto scs = scenarios(T, 1); const Scenario &sc = scs[0]; std::vector<int> script; { std::stringstream st(opt("script")); std::string tok; while (std::getline(st, tok, '.')) script.push_back(atoi(tok.c_str())); }
    Fate f = forked([&] { sc.prepare(); std::vector<std::string> refs(sc.nthreads), outs(sc.nthreads); for (int t = 0; t < sc.nthreads; t++) refs[t] = sc.work(t);
        std::vector<std::function<void()>> bodies; for (int t = 0; t < sc.nthreads; t++) bodies.push_back([&, t] { outs[t] = sc.work(t); });
        sched::Trace tr = sched::run(bodies, {}, true, &script, &relevant_points());
        std::string verdict = !tr.monitor.empty() ? tr.monitor : tr.diverged ? "DIVERGED" : tr.deadlock ? "deadlock" : "";   // a counterexample trail ends in the violating state: the monitor fires there, the rest of the run is unscripted if (verdict.empty()) for (int t = 0; t < sc.nthreads; t++) if (outs[t] != refs[t]) verdict = fmt("thread %d output differs", t);
        std::string ev; for (auto &p : tr.points) ev += fmt("%d:%s,", p.chosen, p.label.c_str()); blob(ev + "|" + verdict); }, 60);
    std::string b = f.died() ? std::string("|died: ") + fate_str(f) : S().blob; size_t bar = b.rfind('|');
    info("steps", b.substr(0, bar)); info("verdict", b.substr(bar + 1)); eval(1); nontrivial(2); outcome(fnv(b.data(), b.size())); outcome(2);
}

int main(int argc, char **argv) {
    init(argc, argv);
    std::string part = opt("part", "sched");
    if (part == "record") part_record(); else if (part == "script") part_script(); else
    if (part == "sched") part_sched(); else part_hist();
    return finish();
}
